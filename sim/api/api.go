// Package api is the thin layer through which every engine calls the library
// under test: one entry point per reader / writer / transformation, with panic
// capture, so that outcomes are comparable values.
package api

import (
	"fmt"
	"io"
	"log"
	"runtime/debug"
	"time"

	astisub "github.com/asticode/go-astisub"

	"verif/sim/canon"
)

func init() { log.SetOutput(io.Discard) }

// ReaderFormats lists every reader configuration exercised.
var ReaderFormats = []string{"srt", "vtt", "ssa", "ssa-opts", "ssa-cb", "stl", "stl-ignoretc", "ttml", "ts", "ts-auto", "ts-pid", "ts-page"}

// WriterFormats lists every writer configuration exercised.
var WriterFormats = []string{"srt", "vtt", "ssa", "stl", "ttml", "ttml-noindent", "ttml-tab"}

// TSPID / TSPage are the PID and page number the corpus' transport streams use.
const (
	TSPID  = 0x100
	TSPage = 888
)

// Read calls the reader for format on r. Panics are captured.
func Read(format string, r io.Reader) (s *astisub.Subtitles, err error, panicked string) {
	s, err, panicked, _ = ReadCB(format, r)
	return
}

// ReadCB is Read plus what the option callbacks of the configuration observed ("ssa-cb": the unknown
// section names and the invalid lines, in call order): part of the observable result of the call.
func ReadCB(format string, r io.Reader) (s *astisub.Subtitles, err error, panicked string, callbacks []string) {
	defer func() {
		if p := recover(); p != nil {
			panicked = fmt.Sprintf("%v\n%s", p, debug.Stack())
			s = nil
		}
	}()
	switch format {
	case "srt":
		s, err = astisub.ReadFromSRT(r)
	case "vtt":
		s, err = astisub.ReadFromWebVTT(r)
	case "ssa":
		s, err = astisub.ReadFromSSA(r)
	case "ssa-opts":
		s, err = astisub.ReadFromSSAWithOptions(r, astisub.SSAOptions{})
	case "ssa-cb":
		s, err = astisub.ReadFromSSAWithOptions(r, astisub.SSAOptions{
			OnUnknownSectionName: func(name string) { callbacks = append(callbacks, "section:"+name) },
			OnInvalidLine:        func(line string) { callbacks = append(callbacks, "invalid:"+line) },
		})
	case "stl":
		s, err = astisub.ReadFromSTL(r, astisub.STLOptions{})
	case "stl-ignoretc":
		s, err = astisub.ReadFromSTL(r, astisub.STLOptions{IgnoreTimecodeStartOfProgramme: true})
	case "ttml":
		s, err = astisub.ReadFromTTML(r)
	case "ts":
		s, err = astisub.ReadFromTeletext(r, astisub.TeletextOptions{PID: TSPID, Page: TSPage})
	case "ts-auto":
		s, err = astisub.ReadFromTeletext(r, astisub.TeletextOptions{})
	case "ts-pid":
		s, err = astisub.ReadFromTeletext(r, astisub.TeletextOptions{PID: TSPID})
	case "ts-page":
		s, err = astisub.ReadFromTeletext(r, astisub.TeletextOptions{Page: TSPage})
	default:
		panic("api: unknown reader format " + format)
	}
	return
}

// ReadOutcome runs Read and folds the result into an Outcome.
func ReadOutcome(format string, r io.Reader) canon.Outcome {
	s, err, p, cb := ReadCB(format, r)
	switch {
	case p != "":
		return canon.Outcome{Class: "panic", Err: p}
	case err != nil:
		return canon.Outcome{Class: "error", Err: err.Error()}
	}
	o := canon.Outcome{Class: "ok", Canon: canon.Bytes(s)}
	if len(cb) > 0 {
		o.Canon = append(o.Canon, canon.Bytes(cb)...)
	}
	if s != nil {
		o.Items = len(s.Items)
	}
	return o
}

// Write calls the writer for format. Panics are captured.
func Write(format string, s *astisub.Subtitles, w io.Writer) (err error, panicked string) {
	defer func() {
		if p := recover(); p != nil {
			panicked = fmt.Sprintf("%v\n%s", p, debug.Stack())
		}
	}()
	switch format {
	case "srt":
		err = s.WriteToSRT(w)
	case "vtt":
		err = s.WriteToWebVTT(w)
	case "ssa":
		err = s.WriteToSSA(w)
	case "stl":
		err = s.WriteToSTL(w)
	case "ttml":
		err = s.WriteToTTML(w)
	case "ttml-noindent":
		err = s.WriteToTTML(w, astisub.WriteToTTMLWithIndentOption(""))
	case "ttml-tab":
		err = s.WriteToTTML(w, astisub.WriteToTTMLWithIndentOption("\t"))
	default:
		panic("api: unknown writer format " + format)
	}
	return
}

// Op is one in-memory transformation with its arguments.
type Op struct {
	Name string `json:"op"`
	D    int64  `json:"d,omitempty"`  // duration argument (ns)
	D2   int64  `json:"d2,omitempty"` // second duration argument
	D3   int64  `json:"d3,omitempty"`
	D4   int64  `json:"d4,omitempty"`
	Flag bool   `json:"flag,omitempty"`
}

// OpNames lists the transformations.
var OpNames = []string{"add", "fragment", "unfragment", "order", "merge", "optimize", "removestyling", "forceduration", "linear"}

// Apply runs a transformation in place. other is the merge operand.
func Apply(op Op, s, other *astisub.Subtitles) (panicked string) {
	defer func() {
		if p := recover(); p != nil {
			panicked = fmt.Sprintf("%v\n%s", p, debug.Stack())
		}
	}()
	switch op.Name {
	case "add":
		s.Add(time.Duration(op.D))
	case "fragment":
		s.Fragment(time.Duration(op.D))
	case "unfragment":
		s.Unfragment()
	case "order":
		s.Order()
	case "merge":
		if other != nil {
			s.Merge(other)
		}
	case "optimize":
		s.Optimize()
	case "removestyling":
		s.RemoveStyling()
	case "forceduration":
		s.ForceDuration(time.Duration(op.D), op.Flag)
	case "linear":
		s.ApplyLinearCorrection(time.Duration(op.D), time.Duration(op.D2), time.Duration(op.D3), time.Duration(op.D4))
	default:
		panic("api: unknown op " + op.Name)
	}
	return
}
