//go:build siminst

// Package hooks connects the harness to the seams simgen generates into the
// instrumented scratch copy. Built without the siminst tag it is a no-op.
package hooks

import astisub "github.com/asticode/go-astisub"

// Instrumented reports whether the binary is built against the instrumented copy.
const Instrumented = true

// SetYield installs (or with nil removes) the yield hook.
func SetYield(f func(site int)) { astisub.SimYieldHook = f }

// SetMapOrder installs (or with nil removes) the map-order hook.
func SetMapOrder(f func(site, n int) []int) { astisub.SimMapOrderHook = f }

// SetLock installs (or with nil removes) the critical-section hook.
func SetLock(f func(delta int)) { astisub.SimLockHook = f }
