//go:build !siminst

// Package hooks connects the harness to the seams simgen generates into the
// instrumented scratch copy. Built without the siminst tag it is a no-op.
package hooks

// Instrumented reports whether the binary is built against the instrumented copy.
const Instrumented = false

// SetYield is a no-op in the plain build.
func SetYield(f func(site int)) {}

// SetMapOrder is a no-op in the plain build.
func SetMapOrder(f func(site, n int) []int) {}

// SetLock is a no-op in the plain build.
func SetLock(f func(delta int)) {}
