//go:build race

package sched

import "runtime"

// RaceBuild reports whether the race detector is compiled in.
const RaceBuild = true

// hide makes the race detector ignore the synchronisation events of the
// current goroutine until unhide: the scheduler's channel hand-offs then
// create no happens-before edge between tasks, while memory accesses are
// still tracked. Serialised tasks therefore look to the detector like the
// unsynchronised callers the property talks about.
func hide()   { runtime.RaceDisable() }
func unhide() { runtime.RaceEnable() }
