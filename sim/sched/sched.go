// Package sched is the seeded cooperative scheduler of the simulator: tasks are
// real goroutines running real library code, but only one is ever runnable.
// Each parks at every scheduling point (stream events, generated yield points)
// and the scheduler goroutine - the only one that draws scheduling choices -
// releases exactly one. Hand-offs are invisible to the race detector (see
// handoff_race.go), harness state shared between the scheduler and a task is
// only touched inside //go:norace functions.
package sched

import (
	"errors"
	"runtime"
	"sync"
	"time"
)

// Decision is one scheduling choice: which task runs next and how many
// scheduling points it passes before it parks again.
type Decision struct {
	Task   int `json:"t"`
	Budget int `json:"b"`
}

// Park is one entry of the schedule trace: task t parked at site s (negative
// sites are stream events: -1 read, -2 write, -3 seek, -4 clock; 0 = finished).
type Park struct {
	Task int `json:"t"`
	Site int `json:"s"`
}

// Task is one simulated caller thread.
type Task struct {
	ID     int
	Body   func(t *Task)
	resume chan struct{}
	yield  chan struct{}
	budget int
	goid   int64
	site   int
	done   bool
	locks  int // critical sections the task is inside (never parked there)
	Points int // scheduling points passed (task-private, read after the run)
}

// Chooser decides the next step. live lists the ids of unfinished tasks in
// ascending order, last is the task that ran before (-1 at the start).
type Chooser interface {
	Next(live []int, last int) Decision
}

// Sched runs a set of tasks to completion under a Chooser.
type Sched struct {
	Tasks     []*Task
	Chooser   Chooser
	MaxSteps  int
	Watchdog  time.Duration
	Decisions []Decision
	Trace     []Park
	Switches  int // decisions that moved to another task while the previous one was unfinished
	OnPark    func(s *Sched, t *Task, site int)
}

// Errors of Run.
var (
	ErrWatchdog = errors.New("sched: a released task neither yielded nor finished in time (watchdog); run abandoned as inconclusive")
	ErrSteps    = errors.New("sched: step budget exhausted")
)

var running *Task

//go:norace
func setRunning(t *Task, budget int) {
	running = t
	if t != nil {
		t.budget = budget
	}
}

//go:norace
func taskState(t *Task) (site int, done bool) { return t.site, t.done }

//go:norace
func setTaskState(t *Task, site int, done bool) { t.site, t.done = site, done }

// Point is a scheduling point. It is installed as the yield hook of the
// instrumented library and called by the simulated streams and clock.
// Goroutines that are not the released task fall through.
//
//go:norace
func Point(site int) {
	t := running
	if t == nil {
		return
	}
	t.budget--
	if t.budget > 0 || t.locks > 0 {
		return
	}
	if curGoid() != t.goid {
		return // not the released task (e.g. a goroutine the library spawned): not ours to schedule
	}
	t.Points++
	t.site = site
	park(t)
}

// Lock is told when the running task enters (+1) or leaves (-1) a critical section of the library
// (generated around Mutex/RWMutex Lock..Unlock and Once.Do): a task is never parked inside one.
//
//go:norace
func Lock(delta int) {
	if t := running; t != nil {
		t.locks += delta
		if t.locks < 0 {
			t.locks = 0
		}
	}
}

func park(t *Task) {
	hide()
	t.yield <- struct{}{}
	<-t.resume
	unhide()
}

func curGoid() int64 {
	var buf [40]byte
	n := runtime.Stack(buf[:], false)
	// "goroutine 123 [running]:"
	var id int64
	for i := len("goroutine "); i < n; i++ {
		c := buf[i]
		if c < '0' || c > '9' {
			break
		}
		id = id*10 + int64(c-'0')
	}
	return id
}

// Run executes the tasks. It returns nil when every task finished.
func (s *Sched) Run() error {
	if s.MaxSteps <= 0 {
		s.MaxSteps = 5_000_000
	}
	if s.Watchdog <= 0 {
		s.Watchdog = 10 * time.Second
	}
	var wg sync.WaitGroup
	for _, t := range s.Tasks {
		t.resume = make(chan struct{})
		t.yield = make(chan struct{})
		wg.Add(1)
		go func(t *Task) {
			defer wg.Done()
			hide()
			<-t.resume
			unhide()
			t.goid = curGoid()
			t.Body(t)
			setTaskState(t, 0, true)
			hide()
			t.yield <- struct{}{}
			// stay alive until the whole phase is over: the race detector finds a conflict with an access of a
			// goroutine that has already exited far less reliably (its context may have been recycled)
			<-t.resume
			unhide()
		}(t)
	}
	timer := time.NewTimer(s.Watchdog)
	defer timer.Stop()
	resetTimer := func() {
		if !timer.Stop() {
			select {
			case <-timer.C:
			default:
			}
		}
		timer.Reset(s.Watchdog)
	}
	last := -1
	for steps := 0; ; steps++ {
		var live []int
		for _, t := range s.Tasks {
			if _, done := taskState(t); !done {
				live = append(live, t.ID)
			}
		}
		if len(live) == 0 {
			break
		}
		if steps >= s.MaxSteps {
			setRunning(nil, 0)
			return ErrSteps
		}
		d := s.Chooser.Next(live, last)
		ok := false
		for _, id := range live {
			if id == d.Task {
				ok = true
			}
		}
		if !ok {
			d.Task = live[0]
		}
		if d.Budget < 1 {
			d.Budget = 1
		}
		t := s.Tasks[d.Task]
		s.Decisions = append(s.Decisions, d)
		if last >= 0 && last != d.Task {
			if _, done := taskState(s.Tasks[last]); !done {
				s.Switches++
			}
		}
		setRunning(t, d.Budget)
		if steps%64 == 0 {
			resetTimer() // the watchdog bounds the time between two parks, not the length of the phase
		}
		hide()
		t.resume <- struct{}{}
		timedOut := false
		select {
		case <-t.yield:
		case <-timer.C:
			timedOut = true
		}
		unhide()
		if timedOut {
			setRunning(nil, 0)
			return ErrWatchdog
		}
		site, _ := taskState(t)
		s.Trace = append(s.Trace, Park{t.ID, site})
		if s.OnPark != nil {
			s.OnPark(s, t, site)
		}
		last = d.Task
	}
	setRunning(nil, 0)
	for _, t := range s.Tasks { // let the finished tasks go
		hide()
		t.resume <- struct{}{}
		unhide()
	}
	wg.Wait() // visible join: results written by tasks are read after this
	return nil
}

// SiteOf returns where task id is currently parked (scheduler goroutine only).
func (s *Sched) SiteOf(id int) (site int, done bool) { return taskState(s.Tasks[id]) }
