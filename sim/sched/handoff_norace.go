//go:build !race

package sched

// RaceBuild reports whether the race detector is compiled in.
const RaceBuild = false

func hide()   {}
func unhide() {}
