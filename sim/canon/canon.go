// Package canon renders a value (in practice *astisub.Subtitles) as canonical
// bytes: map keys sorted, pointers replaced by first-visit identifiers so that
// the aliasing structure (item->style->parent, region->style, shared colour
// pointers) is part of the rendering. "Same result" and "input untouched" are
// then byte comparisons.
package canon

import (
	"bytes"
	"crypto/sha256"
	"encoding/hex"
	"reflect"
	"sort"
	"strconv"
	"time"
)

type pkey struct {
	p uintptr
	t reflect.Type
}

type walker struct {
	buf  bytes.Buffer
	ids  map[pkey]int
	next int
	// hidden: also render what lies between len and cap of every slice. The backing array of a caller's slice is
	// the caller's memory: an append in place writes there, and any other slice over the same array sees it.
	hidden bool
}

// BytesWithCapacity renders v like Bytes plus the elements between len and cap of every slice. Only meaningful for
// comparing the same object graph before and after a call (capacities depend on how a value was built).
func BytesWithCapacity(v interface{}) []byte {
	w := &walker{ids: map[pkey]int{}, hidden: true}
	w.walk(reflect.ValueOf(v))
	return w.buf.Bytes()
}

// HashWithCapacity is a short digest of BytesWithCapacity(v).
func HashWithCapacity(v interface{}) string { return HashBytes(BytesWithCapacity(v)) }

// Bytes renders v canonically.
func Bytes(v interface{}) []byte {
	w := &walker{ids: map[pkey]int{}}
	w.walk(reflect.ValueOf(v))
	return w.buf.Bytes()
}

// Hash is a short digest of Bytes(v).
func Hash(v interface{}) string { return HashBytes(Bytes(v)) }

// HashBytes digests b.
func HashBytes(b []byte) string {
	s := sha256.Sum256(b)
	return hex.EncodeToString(s[:8])
}

var (
	timeType     = reflect.TypeOf(time.Time{})
	durationType = reflect.TypeOf(time.Duration(0))
)

func (w *walker) walk(v reflect.Value) {
	if !v.IsValid() {
		w.buf.WriteString("<invalid>")
		return
	}
	switch v.Type() {
	case timeType:
		if v.CanInterface() {
			t := v.Interface().(time.Time)
			w.buf.WriteString("T" + t.UTC().Format(time.RFC3339Nano))
			return
		}
	case durationType:
		w.buf.WriteString(strconv.FormatInt(v.Int(), 10) + "ns")
		return
	}
	switch v.Kind() {
	case reflect.Ptr:
		if v.IsNil() {
			w.buf.WriteString("nil")
			return
		}
		p := pkey{v.Pointer(), v.Type()}
		if id, ok := w.ids[p]; ok {
			w.buf.WriteString("^" + strconv.Itoa(id))
			return
		}
		w.next++
		w.ids[p] = w.next
		w.buf.WriteString("&" + strconv.Itoa(w.next))
		w.walk(v.Elem())
	case reflect.Interface:
		if v.IsNil() {
			w.buf.WriteString("nil")
			return
		}
		w.walk(v.Elem())
	case reflect.Struct:
		t := v.Type()
		w.buf.WriteString(t.Name() + "{")
		for i := 0; i < v.NumField(); i++ {
			f := v.Field(i)
			if isZero(f) {
				continue // keeps renderings short; zero is zero on both sides of a comparison
			}
			w.buf.WriteString(t.Field(i).Name + ":")
			w.walk(f)
			w.buf.WriteString(";")
		}
		w.buf.WriteString("}")
	case reflect.Slice:
		if v.IsNil() {
			w.buf.WriteString("nil[]")
			return
		}
		if v.Type().Elem().Kind() == reflect.Uint8 {
			w.buf.WriteString(strconv.Quote(string(v.Bytes())))
			if w.hidden && v.Cap() > v.Len() {
				w.buf.WriteString("~" + strconv.Quote(string(v.Slice3(0, v.Cap(), v.Cap()).Bytes()[v.Len():])))
			}
			return
		}
		w.buf.WriteString("[")
		for i := 0; i < v.Len(); i++ {
			if i > 0 {
				w.buf.WriteString(",")
			}
			w.walk(v.Index(i))
		}
		w.buf.WriteString("]")
		if w.hidden && v.Cap() > v.Len() {
			h := v.Slice3(0, v.Cap(), v.Cap())
			w.buf.WriteString("~[")
			for i := v.Len(); i < h.Len(); i++ {
				w.walk(h.Index(i))
				w.buf.WriteString(",")
			}
			w.buf.WriteString("]")
		}
	case reflect.Array:
		w.buf.WriteString("[")
		for i := 0; i < v.Len(); i++ {
			if i > 0 {
				w.buf.WriteString(",")
			}
			w.walk(v.Index(i))
		}
		w.buf.WriteString("]")
	case reflect.Map:
		if v.IsNil() {
			w.buf.WriteString("nilmap")
			return
		}
		keys := v.MapKeys()
		sort.Slice(keys, func(i, j int) bool { return keyString(keys[i]) < keyString(keys[j]) })
		w.buf.WriteString("map{")
		for _, k := range keys {
			w.buf.WriteString(keyString(k) + "=>")
			w.walk(v.MapIndex(k))
			w.buf.WriteString(";")
		}
		w.buf.WriteString("}")
	case reflect.String:
		w.buf.WriteString(strconv.Quote(v.String()))
	case reflect.Bool:
		w.buf.WriteString(strconv.FormatBool(v.Bool()))
	case reflect.Int, reflect.Int8, reflect.Int16, reflect.Int32, reflect.Int64:
		w.buf.WriteString(strconv.FormatInt(v.Int(), 10))
	case reflect.Uint, reflect.Uint8, reflect.Uint16, reflect.Uint32, reflect.Uint64, reflect.Uintptr:
		w.buf.WriteString(strconv.FormatUint(v.Uint(), 10))
	case reflect.Float32, reflect.Float64:
		w.buf.WriteString(strconv.FormatFloat(v.Float(), 'g', -1, 64))
	case reflect.Func:
		if v.IsNil() {
			w.buf.WriteString("nilfunc")
		} else {
			w.buf.WriteString("func")
		}
	default:
		w.buf.WriteString("<" + v.Kind().String() + ">")
	}
}

// keyString renders a map key without going through fmt: this package runs inside simulated tasks, and fmt's
// pooled printers (sync.Pool) exchanged between two tasks would be a happens-before edge the code under test did
// not create, hiding real races from the detector.
func keyString(k reflect.Value) string {
	switch k.Kind() {
	case reflect.String:
		return k.String()
	case reflect.Int, reflect.Int8, reflect.Int16, reflect.Int32, reflect.Int64:
		return strconv.FormatInt(k.Int(), 10)
	case reflect.Uint, reflect.Uint8, reflect.Uint16, reflect.Uint32, reflect.Uint64, reflect.Uintptr:
		return strconv.FormatUint(k.Uint(), 10)
	case reflect.Bool:
		return strconv.FormatBool(k.Bool())
	}
	return k.Type().String() + ":" + strconv.Quote(string(Bytes(k.Interface())))
}

func isZero(v reflect.Value) bool {
	switch v.Kind() {
	case reflect.Ptr, reflect.Interface, reflect.Func:
		return v.IsNil()
	case reflect.Slice, reflect.Map:
		return false // nil and empty are rendered (and distinguished)
	case reflect.String:
		return v.Len() == 0
	case reflect.Bool:
		return !v.Bool()
	case reflect.Int, reflect.Int8, reflect.Int16, reflect.Int32, reflect.Int64:
		return v.Int() == 0
	case reflect.Uint, reflect.Uint8, reflect.Uint16, reflect.Uint32, reflect.Uint64, reflect.Uintptr:
		return v.Uint() == 0
	case reflect.Float32, reflect.Float64:
		return v.Float() == 0
	}
	return false
}

// Outcome is the observable result of one library call.
type Outcome struct {
	Class string // "ok", "error", "panic", "overrun"
	Err   string // error / panic text (never compared across schedules)
	Canon []byte // canonical result when Class=="ok"
	Items int    // number of cues when Class=="ok" and the result is a *Subtitles
}

// Failed reports whether the call failed (error, panic, non-termination).
func (o Outcome) Failed() bool { return o.Class != "ok" }

// Key is what schedules are compared on: the class collapsed to ok/failed plus the canonical result.
func (o Outcome) Key() string {
	if o.Class == "ok" {
		return "ok:" + HashBytes(o.Canon)
	}
	if o.Class == "overrun" {
		return "overrun"
	}
	return "failed"
}
