// Package simio holds the simulated byte streams: the io.Reader / io.Seeker /
// io.Writer arguments the library under test receives. Every call is an event:
// it is counted, optionally logged, and optionally handed to a scheduler hook
// (the scheduling point used by the C20 engine).
package simio

import (
	"bufio"
	"context"
	"errors"
	"fmt"
	"io"
	"os"
	"syscall"
)

// ---- fault kinds -----------------------------------------------------------

// ErrSim is the opaque injected I/O error.
var ErrSim = errors.New("simio: injected I/O error")

type timeoutErr struct{}

func (timeoutErr) Error() string   { return "simio: injected i/o timeout" }
func (timeoutErr) Timeout() bool   { return true }
func (timeoutErr) Temporary() bool { return true }
func (timeoutErr) Is(t error) bool { return t == os.ErrDeadlineExceeded }

// ReadFaultKinds lists the errors a source can fail with (all "other than end-of-file").
var ReadFaultKinds = []string{"sim", "connreset", "timeout", "closedpipe", "unexpectedeof", "eintr", "eagain", "ctxcanceled", "noprogress", "wrappedeof"}

// WriteFaultKinds lists the errors a sink can fail with.
var WriteFaultKinds = []string{"enospc", "epipe", "sim", "eagain"}

// ErrOf maps a fault kind name to the error value that is injected.
func ErrOf(kind string) error {
	switch kind {
	case "sim":
		return ErrSim
	case "connreset":
		return syscall.ECONNRESET
	case "timeout":
		return timeoutErr{}
	case "closedpipe":
		return io.ErrClosedPipe
	case "unexpectedeof":
		return io.ErrUnexpectedEOF
	case "eintr":
		return syscall.EINTR
	case "eagain":
		return syscall.EAGAIN
	case "ctxcanceled":
		return context.Canceled
	case "noprogress":
		return io.ErrNoProgress
	case "wrappedeof":
		// a failure that wraps io.EOF (a transport reporting "peer closed the connection in the middle of a message"):
		// errors.Is(err, io.EOF) holds, err == io.EOF does not. By the io.Reader contract only io.EOF itself is the end
		// of the stream ("Read must return EOF itself, not an error wrapping EOF"): this is an error other than EOF.
		return &os.PathError{Op: "read", Path: "stream", Err: io.EOF}
	case "enospc":
		return syscall.ENOSPC
	case "epipe":
		return syscall.EPIPE
	}
	panic("simio: unknown fault kind " + kind)
}

// ---- plans -----------------------------------------------------------------

// Fault is one injected failure of a source.
type Fault struct {
	Offset   int    `json:"offset"`    // fires when the cursor reaches this byte offset
	Kind     string `json:"kind"`      // see ReadFaultKinds
	WithData bool   `json:"with_data"` // delivered together with the last good bytes (n>0, err) instead of alone (0, err)
	Sticky   bool   `json:"sticky"`    // every later Read fails too (broken connection) instead of succeeding (transient)
	// ThenEOF: the error is reported once and every later Read answers io.EOF (a connection that died: the transport
	// reported it, then the stream is simply over). The bytes behind the fault are never delivered.
	ThenEOF bool `json:"then_eof,omitempty"`
}

// ReadPlan is a delivery schedule for one document.
//
// Chunks are consumed one per Read call: a value n>0 delivers at most n bytes
// (never more than the caller's buffer), 0 is a zero-length read (0, nil).
// When Chunks is exhausted, every further Read delivers at most Rest bytes
// (Rest==0: as much as the caller asks for). The plan carries on unchanged
// across a Seek (fresh cursor, same chunk sequence position).
type ReadPlan struct {
	Name        string `json:"name,omitempty"`
	Chunks      []int  `json:"chunks,omitempty"`
	Rest        int    `json:"rest,omitempty"`
	Half        bool   `json:"half,omitempty"`          // after Chunks: deliver half of what is asked for (rounded up)
	EOFWithData bool   `json:"eof_with_data,omitempty"` // final bytes are returned together with io.EOF
	Medium      string `json:"medium,omitempty"`        // "", "seekable", "bufio" — how the reader is presented (see Wrap)
	Fault       *Fault `json:"fault,omitempty"`
	SeekFail    bool   `json:"seek_fail,omitempty"` // Seek returns an error
}

// Event is one call observed on a simulated stream.
type Event struct {
	Kind string `json:"k"` // read, write, seek
	Off  int    `json:"off"`
	Req  int    `json:"req"`
	N    int    `json:"n"`
	Err  string `json:"err,omitempty"`
}

// Hook is called before every stream event is carried out (scheduling point).
type Hook func(kind string)

// Stats counts what actually happened on a stream.
type Stats struct {
	Reads, ZeroReads, ShortReads, Seeks, Writes int
	EOFWithData                                 int
	FaultsFired                                 map[string]int
	SeekFaults                                  int
}

// ---- reader ----------------------------------------------------------------

// Reader is the simulated source.
type Reader struct {
	doc   []byte
	plan  ReadPlan
	pos   int
	step  int
	fired bool
	dead  error // sticky error once fired
	Log   []Event
	Keep  bool // keep the event log
	Hook  Hook
	St    Stats
	// MaxEvents bounds the number of calls (non-termination guard); 0 = none.
	MaxEvents int
	events    int
	Overrun   bool
}

// NewReader builds a source for doc under plan.
func NewReader(doc []byte, plan ReadPlan) *Reader {
	return &Reader{doc: doc, plan: plan, St: Stats{FaultsFired: map[string]int{}}}
}

// ErrOverrun is returned once the event budget is exhausted.
var ErrOverrun = errors.New("simio: event budget exhausted (non-termination guard)")

func (r *Reader) ev(e Event) {
	if r.Keep {
		r.Log = append(r.Log, e)
	}
}

func errStr(err error) string {
	if err == nil {
		return ""
	}
	return err.Error()
}

// Read implements io.Reader.
func (r *Reader) Read(p []byte) (n int, err error) {
	if r.Hook != nil {
		r.Hook("read")
	}
	r.events++
	if r.MaxEvents > 0 && r.events > r.MaxEvents {
		r.Overrun = true
		return 0, ErrOverrun
	}
	off := r.pos
	defer func() {
		r.St.Reads++
		if n == 0 && err == nil {
			r.St.ZeroReads++
		}
		if n > 0 && n < len(p) && err == nil {
			r.St.ShortReads++
		}
		r.ev(Event{Kind: "read", Off: off, Req: len(p), N: n, Err: errStr(err)})
	}()
	if len(p) == 0 {
		return 0, nil
	}
	if r.dead != nil {
		return 0, r.dead
	}
	f := r.plan.Fault
	limit := len(r.doc)
	if f != nil && !r.fired && f.Offset < limit {
		limit = f.Offset
	}
	// a fault delivered alone fires as soon as the cursor stands on its offset
	if f != nil && !r.fired && r.pos >= f.Offset {
		return 0, r.fire()
	}
	if r.pos >= len(r.doc) {
		// zero-length reads planned right behind the last byte are delivered before the end is announced
		if r.step < len(r.plan.Chunks) && r.plan.Chunks[r.step] == 0 {
			r.step++
			return 0, nil
		}
		return 0, io.EOF
	}
	// how much this call may deliver
	want := len(p)
	if r.step < len(r.plan.Chunks) {
		c := r.plan.Chunks[r.step]
		r.step++
		if c == 0 {
			return 0, nil
		}
		if c < want {
			want = c
		}
	} else if r.plan.Half {
		want = (want + 1) / 2
	} else if r.plan.Rest > 0 && r.plan.Rest < want {
		want = r.plan.Rest
	}
	if r.pos+want > limit {
		want = limit - r.pos
	}
	n = copy(p[:want], r.doc[r.pos:])
	r.pos += n
	if f != nil && !r.fired && f.WithData && r.pos == f.Offset && n > 0 {
		return n, r.fire()
	}
	if r.plan.EOFWithData && r.pos == len(r.doc) && (f == nil || r.fired || f.Offset > len(r.doc)) {
		r.St.EOFWithData++
		return n, io.EOF
	}
	return n, nil
}

func (r *Reader) fire() error {
	f := r.plan.Fault
	r.fired = true
	e := ErrOf(f.Kind)
	r.St.FaultsFired[f.Kind]++
	if f.Sticky {
		r.dead = e
	}
	if f.ThenEOF {
		r.dead = io.EOF
	}
	return e
}

// FaultFired reports whether the planned fault was actually injected.
func (r *Reader) FaultFired() bool { return r.fired }

// Pos is the current cursor.
func (r *Reader) Pos() int { return r.pos }

// seek is the io.Seeker implementation, exposed only through Wrap.
func (r *Reader) seek(offset int64, whence int) (int64, error) {
	if r.Hook != nil {
		r.Hook("seek")
	}
	r.St.Seeks++
	if r.plan.SeekFail {
		r.St.SeekFaults++
		r.ev(Event{Kind: "seek", Off: r.pos, Err: ErrSim.Error()})
		return 0, ErrSim
	}
	var np int64
	switch whence {
	case io.SeekStart:
		np = offset
	case io.SeekCurrent:
		np = int64(r.pos) + offset
	case io.SeekEnd:
		np = int64(len(r.doc)) + offset
	default:
		return 0, fmt.Errorf("simio: bad whence %d", whence)
	}
	if np < 0 {
		return 0, fmt.Errorf("simio: negative position")
	}
	r.pos = int(np)
	if r.pos > len(r.doc) {
		r.pos = len(r.doc)
	}
	r.ev(Event{Kind: "seek", Off: r.pos})
	return np, nil
}

type plainReader struct{ r *Reader }

func (p plainReader) Read(b []byte) (int, error) { return p.r.Read(b) }

type seekReader struct{ r *Reader }

func (p seekReader) Read(b []byte) (int, error)                { return p.r.Read(b) }
func (p seekReader) Seek(off int64, whence int) (int64, error) { return p.r.seek(off, whence) }

type byteReader struct{ r *Reader }

func (p byteReader) Read(b []byte) (int, error) { return p.r.Read(b) }

// ReadByte makes the source an io.ByteReader (encoding/xml then does no buffering of its own): one byte per call,
// through the same plan and fault logic as Read.
func (p byteReader) ReadByte() (byte, error) {
	var b [1]byte
	for i := 0; i < 4; i++ { // a planned zero-length read is not an error for ReadByte: ask again
		n, err := p.r.Read(b[:])
		if n == 1 {
			return b[0], nil // an error delivered together with the byte is reported by the next call (sticky) or lost (transient), as bufio does
		}
		if err != nil {
			return 0, err
		}
	}
	return 0, io.ErrNoProgress
}

// Wrap presents the source to the library the way the plan's Medium says:
// "" / "plain": io.Reader only; "seekable": io.ReadSeeker; "bufio": a
// *bufio.Reader around the plain reader (what the demuxer special-cases).
func (r *Reader) Wrap() io.Reader {
	switch r.plan.Medium {
	case "seekable":
		return seekReader{r}
	case "bufio":
		return bufio.NewReaderSize(plainReader{r}, 4096)
	case "bytereader":
		return byteReader{r}
	}
	return plainReader{r}
}

// ---- writer ----------------------------------------------------------------

// WriteFault makes the Write call that crosses sink offset Offset fail.
type WriteFault struct {
	Offset int    `json:"offset"`
	Kind   string `json:"kind"`
	Short  bool   `json:"short"` // accept the bytes up to Offset (short write) instead of none
	// Transient: only the call that crosses Offset fails (EINTR, EAGAIN, a quota that frees up again); later
	// calls succeed. Default: the sink stays broken and every later call fails too.
	Transient bool `json:"transient,omitempty"`
	// Full: the failing call takes all its bytes and still returns the error (len(p), err) - a sink that accepted
	// the data and then failed to flush or sync it (compressing and buffering writers do this)
	Full bool `json:"full,omitempty"`
}

// WritePlan is the behaviour of a sink.
type WritePlan struct {
	Fault *WriteFault `json:"fault,omitempty"`
	// Medium: "" / "plain": io.Writer only; "rich": also io.StringWriter, io.ByteWriter and io.ReaderFrom
	// (what *os.File, *bufio.Writer and *bytes.Buffer offer), all subject to the same fault.
	Medium string `json:"medium,omitempty"`
}

// Writer is the simulated sink.
type Writer struct {
	Buf    []byte
	plan   WritePlan
	fired  bool
	dead   error
	Calls  []int // size of every accepted Write call (boundaries)
	Log    []Event
	Keep   bool
	Hook   Hook
	Writes int
	Fired  map[string]int
	// RichCalls counts calls that came in through an optional interface of the rich medium.
	RichCalls int
}

// NewWriter builds a sink.
func NewWriter(plan WritePlan) *Writer { return &Writer{plan: plan, Fired: map[string]int{}} }

// Write implements io.Writer. It never returns n < len(p) with a nil error.
func (w *Writer) Write(p []byte) (n int, err error) {
	if w.Hook != nil {
		w.Hook("write")
	}
	w.Writes++
	off := len(w.Buf)
	defer func() {
		if w.Keep {
			w.Log = append(w.Log, Event{Kind: "write", Off: off, Req: len(p), N: n, Err: errStr(err)})
		}
	}()
	if w.dead != nil {
		return 0, w.dead
	}
	f := w.plan.Fault
	if f != nil && !w.fired && off+len(p) > f.Offset {
		w.fired = true
		e := ErrOf(f.Kind)
		if !f.Transient {
			w.dead = e
		}
		w.Fired[f.Kind]++
		if f.Full {
			w.Buf = append(w.Buf, p...)
			return len(p), e
		}
		if f.Short && f.Offset > off {
			n = f.Offset - off
			w.Buf = append(w.Buf, p[:n]...)
		}
		return n, e
	}
	w.Buf = append(w.Buf, p...)
	w.Calls = append(w.Calls, len(p))
	return len(p), nil
}

// FaultFired reports whether the planned fault was injected.
func (w *Writer) FaultFired() bool { return w.fired }

type richWriter struct{ w *Writer }

func (r richWriter) Write(p []byte) (int, error)       { return r.w.Write(p) }
func (r richWriter) WriteString(s string) (int, error) { r.w.RichCalls++; return r.w.Write([]byte(s)) }
func (r richWriter) WriteByte(c byte) error {
	r.w.RichCalls++
	_, err := r.w.Write([]byte{c})
	return err
}
func (r richWriter) ReadFrom(src io.Reader) (n int64, err error) {
	r.w.RichCalls++
	buf := make([]byte, 512)
	for {
		m, rerr := src.Read(buf)
		if m > 0 {
			k, werr := r.w.Write(buf[:m])
			n += int64(k)
			if werr != nil {
				return n, werr
			}
		}
		if rerr == io.EOF {
			return n, nil
		}
		if rerr != nil {
			return n, rerr
		}
	}
}

type plainWriter struct{ w *Writer }

func (p plainWriter) Write(b []byte) (int, error) { return p.w.Write(b) }

// Wrap presents the sink to the library the way the plan's Medium says.
func (w *Writer) Wrap() io.Writer {
	if w.plan.Medium == "rich" {
		return richWriter{w}
	}
	return plainWriter{w}
}
