package corpus

import (
	"bytes"
	"context"
	"fmt"
	"math/bits"

	astikit "github.com/asticode/go-astikit"
	astits "github.com/asticode/go-astits"

	"verif/sim/prng"
)

// Teletext-in-TS test streams: go-astits' Muxer packetises; the teletext data
// units (EN 300 472 / ETS 300 706: Hamming 8/4 address bytes, odd-parity
// characters, reversed bit order) are encoded here.

var ham84enc [16]byte

func init() {
	spec := []byte{0x15, 0x02, 0x49, 0x5e, 0x64, 0x73, 0x38, 0x2f, 0xd0, 0xc7, 0x8c, 0x9b, 0xa1, 0xb6, 0xfd, 0xea}
	for v, b := range spec {
		for _, cand := range []byte{b, bits.Reverse8(b)} {
			if o, ok := astikit.ByteHamming84Decode(cand); ok && int(o) == v {
				ham84enc[v] = cand
			}
		}
	}
}

func oddParity(c byte) byte {
	c &= 0x7f
	if bits.OnesCount8(c)%2 == 0 {
		c |= 0x80
	}
	return c
}

func ttUnit(id byte, mag, pkt int, payload [40]byte) []byte {
	u := []byte{id, 0x2c, 0xe0 | 7, 0xe4}
	h := byte(mag&7) | byte(pkt<<3)
	u = append(u, ham84enc[h&0xf], ham84enc[h>>4])
	u = append(u, payload[:]...)
	return u
}

func ttStuffing() []byte {
	u := []byte{0xff, 0x2c}
	for i := 0; i < 0x2c; i++ {
		u = append(u, 0xff)
	}
	return u
}

func ttHeader(mag, page int, subtitle, serial bool, charset int) []byte {
	var p [40]byte
	p[0] = ham84enc[page%10]
	p[1] = ham84enc[page/10]
	p[2], p[3], p[4] = ham84enc[0], ham84enc[0], ham84enc[0]
	c := 0
	if subtitle {
		c |= 8
	}
	p[5] = ham84enc[c]
	p[6] = ham84enc[0]
	c = (charset & 7) << 1
	if serial {
		c |= 1
	}
	p[7] = ham84enc[c]
	for i := 8; i < 40; i++ {
		p[i] = bits.Reverse8(oddParity(' '))
	}
	return ttUnit(0x03, mag, 0, p)
}

// ttRow encodes one display row; raw is the sequence of 7-bit codes between
// the "start box" pair and the "end box" code.
func ttRow(mag, r int, raw []byte) []byte {
	var p [40]byte
	b := []byte{0x0b, 0x0b}
	b = append(b, raw...)
	b = append(b, 0x0a)
	for i := range p {
		c := byte(' ')
		if i < len(b) {
			c = b[i]
		}
		p[i] = bits.Reverse8(oddParity(c))
	}
	return ttUnit(0x03, mag, r, p)
}

// TSSpec describes a transport stream to synthesise.
type TSSpec struct {
	Charset     int       // national option code 0..7 of the subtitle page
	Pages       [][]TSRow // one entry per page instance; empty = "clear page"
	Distractor  bool      // interleave another page of the same magazine with other text
	Stuffing    bool      // add stuffing data units
	WithPMTDesc bool      // PMT carries a teletext descriptor (needed for PID auto-detection)
	Serial      bool
	ExtraPES    int // number of non-teletext PES packets on another PID
}

// TSRow is one row of one page instance.
type TSRow struct {
	Row int
	Raw []byte
}

// BuildTS returns the bytes of the transport stream.
func BuildTS(spec TSSpec) []byte {
	var buf bytes.Buffer
	m := astits.NewMuxer(context.Background(), &buf)
	pid := uint16(0x100)
	es := astits.PMTElementaryStream{ElementaryPID: pid, StreamType: astits.StreamTypePrivateData}
	if spec.WithPMTDesc {
		es.ElementaryStreamDescriptors = []*astits.Descriptor{{Tag: astits.DescriptorTagTeletext, Length: 5,
			Teletext: &astits.DescriptorTeletext{Items: []*astits.DescriptorTeletextItem{{Language: []byte("eng"), Magazine: 8, Page: 0x88, Type: 2}}}}}
	}
	if err := m.AddElementaryStream(es); err != nil {
		panic(err)
	}
	if spec.ExtraPES > 0 {
		if err := m.AddElementaryStream(astits.PMTElementaryStream{ElementaryPID: 0x101, StreamType: astits.StreamTypePrivateData}); err != nil {
			panic(err)
		}
	}
	m.SetPCRPID(pid)
	pts := int64(90000)
	write := func(p uint16, units ...[]byte) {
		d := []byte{0x10}
		for _, u := range units {
			d = append(d, u...)
		}
		_, err := m.WriteData(&astits.MuxerData{PID: p, PES: &astits.PESData{Data: d, Header: &astits.PESHeader{StreamID: astits.StreamIDPrivateStream1,
			OptionalHeader: &astits.PESOptionalHeader{MarkerBits: 2, PTSDTSIndicator: astits.PTSDTSIndicatorOnlyPTS, PTS: &astits.ClockReference{Base: pts}, DataAlignmentIndicator: true}}}})
		if err != nil {
			panic(err)
		}
		pts += 45000
	}
	extra := spec.ExtraPES
	for _, pg := range spec.Pages {
		units := [][]byte{ttHeader(8, 88, true, spec.Serial, spec.Charset)}
		for _, r := range pg {
			units = append(units, ttRow(8, r.Row, r.Raw))
		}
		if spec.Stuffing {
			units = append(units, ttStuffing())
		}
		write(pid, units...)
		if spec.Distractor {
			write(pid, ttHeader(8, 89, false, spec.Serial, (spec.Charset+1)&7), ttRow(8, 10, []byte("not a subtitle")))
		}
		if extra > 0 {
			extra--
			write(0x101, ttStuffing())
		}
	}
	return buf.Bytes()
}

// nationalChars are the 13 codes whose glyph depends on the national option subset.
var nationalChars = []byte{0x23, 0x24, 0x40, 0x5b, 0x5c, 0x5d, 0x5e, 0x5f, 0x60, 0x7b, 0x7c, 0x7d, 0x7e}

func genTSRowText(r *prng.R) []byte {
	n := r.Range(3, 30)
	var b []byte
	for len(b) < n {
		switch {
		case r.Bool(0.35):
			b = append(b, nationalChars[r.Intn(len(nationalChars))])
		case r.Bool(0.08):
			b = append(b, byte(r.Intn(8))) // colour code
		case r.Bool(0.04):
			b = append(b, byte(0x0c+r.Intn(4))) // size codes
		case r.Bool(0.15):
			b = append(b, ' ')
		default:
			b = append(b, byte('a'+r.Intn(26)))
		}
	}
	return b
}

// GenTS draws a transport stream.
func GenTS(r *prng.R, idx int) Doc {
	spec := TSSpec{
		Charset:     r.Intn(8),
		Distractor:  r.Bool(0.3),
		Stuffing:    r.Bool(0.3),
		WithPMTDesc: true,
		Serial:      r.Bool(0.7),
	}
	if r.Bool(0.3) {
		spec.ExtraPES = r.Range(1, 3)
	}
	np := r.Range(1, 5)
	cues := 0
	for i := 0; i < np; i++ {
		var rows []TSRow
		nr := r.Range(1, 3)
		used := map[int]bool{}
		for j := 0; j < nr; j++ {
			row := r.Range(1, 23)
			if used[row] {
				continue
			}
			used[row] = true
			rows = append(rows, TSRow{Row: row, Raw: genTSRowText(r)})
		}
		spec.Pages = append(spec.Pages, rows)
		cues++
		if r.Bool(0.6) {
			spec.Pages = append(spec.Pages, nil) // clear
		}
	}
	return Doc{Name: fmt.Sprintf("gen-ts-%d-cs%d", idx, spec.Charset), Format: "ts", Data: BuildTS(spec), Cues: -1, Gen: true}
}

// FixedTS builds a small stream with the given charset and text (C20 conflict scenarios).
func FixedTS(charset int, text string, pages int) []byte {
	spec := TSSpec{Charset: charset, WithPMTDesc: true, Serial: true}
	for i := 0; i < pages; i++ {
		spec.Pages = append(spec.Pages, []TSRow{{Row: 20, Raw: []byte(text)}, {Row: 22, Raw: []byte(text)}}, nil)
	}
	return BuildTS(spec)
}
