package corpus

import (
	"encoding/json"
	"fmt"
	"reflect"
	"strconv"
	"time"

	astisub "github.com/asticode/go-astisub"

	"verif/sim/prng"
)

// ListSpec is a serialisable description of a cue list: styles, regions and
// items refer to each other by name and Build wires the pointers. Generated
// lists are kept in this form so that replay files carry the list itself.
type ListSpec struct {
	Name    string            `json:"name,omitempty"`
	Styles  []StyleSpec       `json:"styles,omitempty"`
	Regions []RegionSpec      `json:"regions,omitempty"`
	Items   []ItemSpec        `json:"items,omitempty"`
	Meta    *astisub.Metadata `json:"meta,omitempty"`
}

// StyleSpec describes one entry of Subtitles.Styles.
type StyleSpec struct {
	ID     string                   `json:"id"`
	Parent string                   `json:"parent,omitempty"`
	Attrs  *astisub.StyleAttributes `json:"attrs,omitempty"`
	// Detached: the style object exists and can be referenced (by items, regions, as a parent) but is not an
	// entry of Subtitles.Styles - what Optimize leaves behind for a parent that is only used through its child
	Detached bool `json:"detached,omitempty"`
}

// RegionSpec describes one entry of Subtitles.Regions.
type RegionSpec struct {
	ID    string                   `json:"id"`
	Style string                   `json:"style,omitempty"`
	Attrs *astisub.StyleAttributes `json:"attrs,omitempty"`
}

// ItemSpec describes one cue.
type ItemSpec struct {
	StartMs  int                      `json:"start_ms"`
	EndMs    int                      `json:"end_ms"`
	Index    int                      `json:"index,omitempty"`
	Style    string                   `json:"style,omitempty"`
	Region   string                   `json:"region,omitempty"`
	Attrs    *astisub.StyleAttributes `json:"attrs,omitempty"`
	Comments []string                 `json:"comments,omitempty"`
	Lines    []LineSpec               `json:"lines,omitempty"`
}

// LineSpec describes one line of a cue.
type LineSpec struct {
	Voice string         `json:"voice,omitempty"`
	Items []LineItemSpec `json:"items,omitempty"`
}

// LineItemSpec describes one formatted run of text.
type LineItemSpec struct {
	Text    string                   `json:"text"`
	Style   string                   `json:"style,omitempty"`
	StartMs int                      `json:"start_ms,omitempty"`
	Attrs   *astisub.StyleAttributes `json:"attrs,omitempty"`
}

// cloneAttrs deep-copies a StyleAttributes value: no pointer is shared between the spec and a build or
// between two builds (a writer that writes through a pointer must not be able to change the spec), while
// aliasing *inside* the value (SRTColor and TTMLColor sharing one *string, as the readers create it) is kept.
func cloneAttrs(a *astisub.StyleAttributes) *astisub.StyleAttributes {
	if a == nil {
		return nil
	}
	memo := map[uintptr]reflect.Value{}
	out := deepCopy(reflect.ValueOf(a), memo)
	return out.Interface().(*astisub.StyleAttributes)
}

func deepCopy(v reflect.Value, memo map[uintptr]reflect.Value) reflect.Value {
	switch v.Kind() {
	case reflect.Ptr:
		if v.IsNil() {
			return v
		}
		if c, ok := memo[v.Pointer()]; ok && c.Type() == v.Type() {
			return c
		}
		c := reflect.New(v.Type().Elem())
		memo[v.Pointer()] = c
		c.Elem().Set(deepCopy(v.Elem(), memo))
		return c
	case reflect.Struct:
		c := reflect.New(v.Type()).Elem()
		c.Set(v)
		for i := 0; i < v.NumField(); i++ {
			if c.Field(i).CanSet() {
				c.Field(i).Set(deepCopy(v.Field(i), memo))
			}
		}
		return c
	case reflect.Slice:
		if v.IsNil() {
			return v
		}
		c := reflect.MakeSlice(v.Type(), v.Len(), v.Len())
		for i := 0; i < v.Len(); i++ {
			c.Index(i).Set(deepCopy(v.Index(i), memo))
		}
		return c
	}
	return v
}

// Build materialises the list. Every call returns a fresh object graph.
func (l ListSpec) Build() *astisub.Subtitles {
	s := astisub.NewSubtitles()
	if l.Meta != nil {
		// deep copy: no pointer is shared between two builds
		var m astisub.Metadata
		b, _ := json.Marshal(l.Meta)
		_ = json.Unmarshal(b, &m)
		if m.Comments != nil { // spare capacity, as a slice that was grown by append has it
			m.Comments = append(make([]string, 0, len(m.Comments)+3), m.Comments...)
		}
		s.Metadata = &m
	}
	all := map[string]*astisub.Style{}
	for _, st := range l.Styles {
		all[st.ID] = &astisub.Style{ID: st.ID, InlineStyle: cloneAttrs(st.Attrs)}
		if !st.Detached {
			s.Styles[st.ID] = all[st.ID]
		}
	}
	for _, st := range l.Styles {
		if st.Parent != "" {
			all[st.ID].Style = all[st.Parent]
		}
	}
	for _, rg := range l.Regions {
		r := &astisub.Region{ID: rg.ID, InlineStyle: cloneAttrs(rg.Attrs)}
		if rg.Style != "" {
			r.Style = all[rg.Style]
		}
		s.Regions[rg.ID] = r
	}
	s.Items = make([]*astisub.Item, 0, len(l.Items)+2)
	for _, it := range l.Items {
		i := &astisub.Item{StartAt: time.Duration(it.StartMs) * time.Millisecond, EndAt: time.Duration(it.EndMs) * time.Millisecond,
			Index: it.Index, InlineStyle: cloneAttrs(it.Attrs), Comments: append([]string(nil), it.Comments...)}
		if len(it.Comments) > 0 {
			i.Comments = append(make([]string, 0, len(it.Comments)+2), it.Comments...)
		}
		i.Lines = make([]astisub.Line, 0, len(it.Lines)+1)
		if it.Style != "" {
			i.Style = all[it.Style]
		}
		if it.Region != "" {
			i.Region = s.Regions[it.Region]
		}
		for _, ln := range it.Lines {
			line := astisub.Line{VoiceName: ln.Voice, Items: make([]astisub.LineItem, 0, len(ln.Items)+1)}
			for _, li := range ln.Items {
				x := astisub.LineItem{Text: li.Text, InlineStyle: cloneAttrs(li.Attrs), StartAt: time.Duration(li.StartMs) * time.Millisecond}
				if li.Style != "" {
					x.Style = all[li.Style]
				}
				line.Items = append(line.Items, x)
			}
			i.Lines = append(i.Lines, line)
		}
		s.Items = append(s.Items, i)
	}
	return s
}

func sp(s string) *string   { return &s }
func ip(i int) *int         { return &i }
func fp(f float64) *float64 { return &f }
func bp(b bool) *bool       { return &b }

// genStyleAttrs draws a heterogeneous attribute subset: each family (SSA,
// TTML, WebVTT style blocks, STL) is present with its own probability and,
// within a family, each attribute independently.
func genStyleAttrs(r *prng.R, i int) *astisub.StyleAttributes {
	a := &astisub.StyleAttributes{}
	if r.Bool(0.8) { // SSA: independent subset so that attribute sets differ per style
		if r.Bool(0.5) {
			a.SSAAlignment = ip(r.Range(1, 9))
		}
		if r.Bool(0.3) {
			a.SSAAlphaLevel = fp(float64(r.Intn(100)) / 100)
		}
		if r.Bool(0.3) {
			a.SSAAngle = fp(float64(r.Intn(360)))
		}
		if r.Bool(0.4) {
			a.SSABackColour = &astisub.Color{Alpha: uint8(r.Intn(256)), Red: uint8(r.Intn(256))}
		}
		if r.Bool(0.5) {
			a.SSABold = bp(r.Bool(0.5))
		}
		if r.Bool(0.3) {
			a.SSABorderStyle = ip(r.PickInt(1, 3))
		}
		if r.Bool(0.3) {
			a.SSAEncoding = ip(r.Intn(2))
		}
		if r.Bool(0.6) {
			a.SSAFontName = r.Pick("Arial", "Courier New", "Tahoma", " arial ")
		}
		if r.Bool(0.6) {
			a.SSAFontSize = fp(float64(r.Range(8, 40)))
		}
		if r.Bool(0.4) {
			a.SSAItalic = bp(r.Bool(0.5))
		}
		if r.Bool(0.3) {
			a.SSAMarginLeft = ip(r.Intn(50))
		}
		if r.Bool(0.3) {
			a.SSAMarginRight = ip(r.Intn(50))
		}
		if r.Bool(0.3) {
			a.SSAMarginVertical = ip(r.Intn(50))
		}
		if r.Bool(0.3) {
			a.SSAOutline = fp(float64(r.Intn(4)))
		}
		if r.Bool(0.3) {
			a.SSAOutlineColour = &astisub.Color{Green: uint8(r.Intn(256))}
		}
		if r.Bool(0.5) {
			a.SSAPrimaryColour = &astisub.Color{Blue: uint8(r.Intn(256)), Green: uint8(r.Intn(256))}
		}
		if r.Bool(0.2) {
			a.SSAScaleX = fp(100)
		}
		if r.Bool(0.2) {
			a.SSAScaleY = fp(90)
		}
		if r.Bool(0.3) {
			a.SSASecondaryColour = &astisub.Color{Red: 255}
		}
		if r.Bool(0.3) {
			a.SSAShadow = fp(float64(r.Intn(3)))
		}
		if r.Bool(0.2) {
			a.SSASpacing = fp(1.5)
		}
		if r.Bool(0.2) {
			a.SSAStrikeout = bp(r.Bool(0.5))
		}
		if r.Bool(0.2) {
			a.SSAUnderline = bp(r.Bool(0.5))
		}
	}
	if r.Bool(0.6) { // TTML
		if r.Bool(0.6) {
			a.TTMLColor = sp(genColor(r))
		}
		if r.Bool(0.4) {
			a.TTMLFontSize = sp(fmt.Sprintf("%d%%", r.Range(50, 150)))
		}
		if r.Bool(0.4) {
			a.TTMLTextAlign = sp(r.Pick("center", "left", "right", "Start"))
		}
		if r.Bool(0.3) {
			a.TTMLExtent = sp("80% 10%")
		}
		if r.Bool(0.3) {
			a.TTMLOrigin = sp("10% 80%")
		}
		if r.Bool(0.2) {
			a.TTMLZIndex = ip(r.Intn(5))
		}
		if r.Bool(0.2) {
			a.TTMLBackgroundColor = sp(r.Pick("black", "Black", "#0000007F", " transparent"))
		}
	}
	if r.Bool(0.6) { // WebVTT style blocks spread over several styles
		n := r.Range(1, 3)
		for k := 0; k < n; k++ {
			a.WebVTTStyles = append(a.WebVTTStyles, fmt.Sprintf("::cue(.s%d_%d) { color: %s; }", i, k, r.Pick(fmt.Sprintf("#%06x", r.Intn(1<<24)), "#ffa500", "#123456", "#FFA500", "#abcdef")))
		}
	}
	if r.Bool(0.3) {
		a.WebVTTLines = r.Range(1, 5)
		a.WebVTTWidth = fmt.Sprintf("%d%%", r.Range(10, 90))
		a.WebVTTRegionAnchor = "0%,100%"
		a.WebVTTViewportAnchor = "10%,90%"
		a.WebVTTScroll = "up"
		a.WebVTTAlign = r.Pick("left", "right", "middle")
		a.WebVTTPosition = "50%"
	}
	return a
}

func genItemAttrs(r *prng.R) *astisub.StyleAttributes {
	if r.Bool(0.25) {
		return nil
	}
	a := &astisub.StyleAttributes{}
	if r.Bool(0.4) {
		a.WebVTTAlign = r.Pick("left", "right", "middle")
	}
	if r.Bool(0.3) {
		a.WebVTTLine = fmt.Sprintf("%d%%", r.Intn(100))
	}
	if r.Bool(0.3) {
		a.WebVTTPosition = "10%"
	}
	if r.Bool(0.2) {
		a.WebVTTSize = "80%"
	}
	if r.Bool(0.2) {
		a.WebVTTVertical = "rl"
	}
	if r.Bool(0.3) {
		a.SSAEffect = r.Pick("Karaoke", "Scroll up;10;100", "")
		a.SSALayer = ip(r.Intn(3))
		a.SSAMarginLeft = ip(r.Intn(20))
		a.SSAMarked = bp(r.Bool(0.5))
	}
	if r.Bool(0.3) {
		j := astisub.Justification(r.Range(1, 4))
		a.STLJustification = &j
		a.STLPosition = &astisub.STLPosition{VerticalPosition: r.Range(0, 25), MaxRows: 23, Rows: r.Range(1, 3)}
	}
	if r.Bool(0.2) {
		a.TTMLColor = sp(genColor(r))
	}
	return a
}

// genColor draws colour strings in the spellings a "harmless" normalisation would alter.
func genColor(r *prng.R) string {
	// incl. colours that STYLE blocks of other generated lists declare classes for
	return r.Pick("white", "#ff0000", "#00ffff", "#ffff00", "#FF00FF", "Red", "#00FF00", " yellow ", "rgba(255,0,0,255)", "#ffa500", "#123456", "#ABCDEF")
}

func genLineItemAttrs(r *prng.R) *astisub.StyleAttributes {
	if r.Bool(0.5) {
		return nil
	}
	a := &astisub.StyleAttributes{}
	switch r.Intn(9) {
	case 6: // built in code: one colour field only, no propagated twins
		a.SRTColor = sp(genColor(r))
	case 7:
		a.TTMLColor = sp(genColor(r))
	case 8:
		a.SRTBold, a.SRTUnderline = r.Bool(0.7), r.Bool(0.5) // SRT styling without the WebVTT tags a reader would have added
		a.WebVTTItalics = r.Bool(0.3)
	case 0:
		a.SRTBold, a.SRTItalics = true, r.Bool(0.5)
		a.WebVTTTags = []astisub.WebVTTTag{{Name: "b"}}
	case 1:
		c := sp(genColor(r))
		a.SRTColor, a.TTMLColor = c, c // the readers make both fields share one pointer
	case 2:
		a.WebVTTTags = []astisub.WebVTTTag{{Name: "c", Classes: []string{"yellow", "bg_blue"}}, {Name: "i"}}
	case 3:
		a.STLItalics, a.STLUnderline = bp(true), bp(r.Bool(0.5))
	case 4:
		a.SSAEffect = `{\an8}`
	case 5:
		a.SRTPosition = byte(r.Range(1, 9))
		a.TTMLFontStyle = sp("italic")
	}
	return a
}

// GenList draws a cue list with 0..6 styles and 0..4 regions carrying
// heterogeneous attribute subsets, parent-style and region->style links and
// present / absent / partial metadata.
func GenList(r *prng.R, idx int) ListSpec { return GenListSized(r, idx, 6, 4, 8) }

// GenListSized is GenList with explicit upper bounds for styles, regions and cues.
func GenListSized(r *prng.R, idx, maxStyles, maxRegions, maxItems int) ListSpec {
	l := ListSpec{Name: fmt.Sprintf("gen-list-%d", idx)}
	ns := r.Range(0, maxStyles)
	if maxStyles > 6 {
		ns = r.Range(maxStyles/2, maxStyles)
	}
	for i := 0; i < ns; i++ {
		// ids of different lengths, digit counts and case, in no particular order: "s9" next to "s10", "Default" next to "a2"
		id := fmt.Sprintf("%s%d", r.Pick("s", "s", "style", "Z", "a", "Default", "x_"), r.Intn(13))
		if i > 0 && r.Bool(0.12) { // the id of an earlier style with the case of its letters swapped ("Default3" / "dEFAULT3")
			id = swapCase(l.Styles[r.Intn(i)].ID)
		}
		for dup := true; dup; {
			dup = false
			for _, o := range l.Styles {
				if o.ID == id {
					dup = true
					id += "b"
				}
			}
		}
		st := StyleSpec{ID: id, Attrs: genStyleAttrs(r, i), Detached: r.Bool(0.08)}
		if i > 0 && r.Bool(0.3) {
			st.Parent = l.Styles[r.Intn(i)].ID
		}
		l.Styles = append(l.Styles, st)
	}
	nr := r.Range(0, maxRegions)
	for i := 0; i < nr; i++ {
		rg := RegionSpec{ID: fmt.Sprintf("%s%d", r.Pick("r", "r", "Region", "B"), 8+3*i+r.Intn(3)), Attrs: genStyleAttrs(r, 10+i)}
		for _, o := range l.Regions {
			if o.ID == rg.ID {
				rg.ID += "x"
			}
		}
		if ns > 0 && r.Bool(0.5) {
			rg.Style = l.Styles[r.Intn(ns)].ID
		}
		l.Regions = append(l.Regions, rg)
	}
	switch r.Intn(5) {
	case 0: // SSA needs metadata; keep "absent" rare enough that most lists exercise every writer
	default:
		m := &astisub.Metadata{}
		if r.Bool(0.6) {
			m.Title = asciiSentence(r, 1, 3)
			m.Language = r.Pick(astisub.LanguageFrench, astisub.LanguageEnglish, astisub.LanguageNorwegian, astisub.LanguageChinese, astisub.LanguageJapanese, "", "xx")
			m.Framerate = r.PickInt(25, 30)
			m.TTMLCopyright = r.Pick("", "(c) someone")
			m.SSAScriptType = r.Pick("v4.00", "v4.00+", "")
			m.SSAPlayResX = ip(r.Range(100, 2000))
			m.Comments = []string{asciiSentence(r, 1, 4)}
			if r.Bool(0.4) { // comments as callers and readers may leave them: padded, with a line break, empty
				m.Comments = append(m.Comments, r.Pick("  padded "+asciiSentence(r, 1, 2)+" ", "two\nlines", "tab\tinside\r\n", ""))
			}
			m.STLDisplayStandardCode = r.Pick("0", "1", "")
			m.STLCountryOfOrigin = "FRA"
			m.STLPublisher = "pub"
		} else {
			m.Framerate = 25
			m.STLDisplayStandardCode = "1"
		}
		switch r.Intn(6) { // STL dates: both, creation only, revision only, none, zero instants (what ReadFromSTL leaves for blank fields)
		case 0:
			t1 := time.Date(2017, 7, 2, 0, 0, 0, 0, time.UTC)
			t2 := time.Date(2019, 12, 31, 0, 0, 0, 0, time.UTC)
			m.STLCreationDate, m.STLRevisionDate = &t1, &t2
		case 1:
			t1 := time.Date(2001, 1, 1, 0, 0, 0, 0, time.UTC)
			m.STLCreationDate = &t1
		case 2:
			t2 := time.Date(2011, 11, 11, 23, 30, 0, 0, time.UTC)
			m.STLRevisionDate = &t2
		case 4:
			var z1, z2 time.Time
			m.STLCreationDate, m.STLRevisionDate = &z1, &z2
		case 5:
			var z time.Time
			t2 := time.Date(1999, 12, 31, 0, 0, 0, 0, time.UTC)
			m.STLCreationDate, m.STLRevisionDate = &z, &t2
		}
		if r.Bool(0.3) {
			m.WebVTTTimestampMap = &astisub.WebVTTTimestampMap{Local: time.Second, MpegTS: 900000}
		}
		l.Meta = m
	}
	n := r.Range(0, maxItems)
	if maxItems > 8 {
		n = r.Range(maxItems/3, maxItems)
	}
	if n == 0 && r.Bool(0.8) {
		n = 1
	}
	t := r.Intn(2000)
	for i := 0; i < n; i++ {
		d := r.Range(100, 3000)
		it := ItemSpec{StartMs: t, EndMs: t + d, Index: i + 1, Attrs: genItemAttrs(r)}
		if r.Bool(0.03) { // times writers rarely see: negative, 100 hours and more
			it.StartMs, it.EndMs = r.PickInt(-1500, -1, 359999999, 360000000, 400000000), r.PickInt(-1, 10, 360000001, 500000000)
		}
		if r.Bool(0.15) {
			it.Index = 0
		}
		t += d + r.Intn(500)
		if ns > 0 && r.Bool(0.6) {
			it.Style = l.Styles[r.Intn(ns)].ID
		}
		if nr > 0 && r.Bool(0.5) {
			it.Region = l.Regions[r.Intn(nr)].ID
		}
		if r.Bool(0.2) {
			it.Comments = []string{asciiSentence(r, 1, 4)}
			if r.Bool(0.5) {
				it.Comments = append(it.Comments, "  padded "+asciiSentence(r, 1, 2)+" ")
			}
		}
		nl := r.Range(1, 3)
		for j := 0; j < nl; j++ {
			ln := LineSpec{}
			if r.Bool(0.2) {
				ln.Voice = r.Pick("Roger", "Alice B")
			}
			ni := r.Range(1, 3)
			for k := 0; k < ni; k++ {
				li := LineItemSpec{Text: sentenceNoEntities(r, 1, 5), Attrs: genLineItemAttrs(r)}
				if ni > 1 && r.Bool(0.1) {
					li.Text = "" // a text-less run between others (what a reader leaves for a lone tag)
				}
				if ns > 0 && r.Bool(0.2) {
					li.Style = l.Styles[r.Intn(ns)].ID
				}
				if k > 0 && r.Bool(0.2) {
					li.StartMs = it.StartMs + 10*k
				}
				ln.Items = append(ln.Items, li)
			}
			it.Lines = append(it.Lines, ln)
		}
		l.Items = append(l.Items, it)
	}
	if ns >= 2 && r.Bool(0.25) {
		// an inheritance chain whose ancestors are referenced by nothing but their descendants (what a TTML file with
		// a base style looks like): s0 <- s1 (<- s2); every direct reference to an ancestor is moved to the last link
		chain := 2
		if ns >= 3 && r.Bool(0.5) {
			chain = 3
		}
		l.Styles[0].Parent = ""
		for k := 1; k < chain; k++ {
			l.Styles[k].Parent = l.Styles[k-1].ID
		}
		last := l.Styles[chain-1].ID
		anc := map[string]bool{}
		for k := 0; k < chain-1; k++ {
			anc[l.Styles[k].ID] = true
		}
		for k := chain; k < ns; k++ {
			if anc[l.Styles[k].Parent] {
				l.Styles[k].Parent = last
			}
		}
		for i := range l.Regions {
			if anc[l.Regions[i].Style] {
				l.Regions[i].Style = last
			}
		}
		used := false
		for i := range l.Items {
			if anc[l.Items[i].Style] {
				l.Items[i].Style = last
			}
			used = used || l.Items[i].Style == last
			for j := range l.Items[i].Lines {
				for k := range l.Items[i].Lines[j].Items {
					if anc[l.Items[i].Lines[j].Items[k].Style] {
						l.Items[i].Lines[j].Items[k].Style = last
					}
				}
			}
		}
		if !used && len(l.Items) > 0 {
			l.Items[0].Style = last
		}
	}
	return l
}

func sentenceNoEntities(r *prng.R, min, max int) string {
	ws := []string{"the", "quick", "brown", "fox", "été", "naïve", "a&b", "<3", "Hello,", "world!", "ß", "x y", "42"}
	n := r.Range(min, max)
	s := ""
	for i := 0; i < n; i++ {
		if i > 0 {
			s += " "
		}
		s += ws[r.Intn(len(ws))]
	}
	return s
}

func swapCase(s string) string {
	b := []byte(s)
	for i, c := range b {
		switch {
		case c >= 'a' && c <= 'z':
			b[i] = c - 32
		case c >= 'A' && c <= 'Z':
			b[i] = c + 32
		}
	}
	return string(b)
}

// ManyCues is a plain list of n cues (two styles, one region, complete metadata so that every writer accepts it):
// the workload for size thresholds inside writers (batching, pre-sizing, worker pools, counters with a fixed
// number of digits). Built without a generator: the replay file carries only n.
func ManyCues(n int) ListSpec {
	t1 := time.Date(2017, 7, 2, 0, 0, 0, 0, time.UTC)
	t2 := time.Date(2019, 12, 31, 0, 0, 0, 0, time.UTC)
	l := ListSpec{Name: "many-" + strconv.Itoa(n),
		Styles:  []StyleSpec{{ID: "s1", Attrs: &astisub.StyleAttributes{SSAFontName: "Arial", SSAFontSize: fp(20), TTMLColor: sp("white")}}, {ID: "s2", Attrs: &astisub.StyleAttributes{SSABold: bp(true), TTMLColor: sp("yellow")}}},
		Regions: []RegionSpec{{ID: "r1", Attrs: &astisub.StyleAttributes{TTMLOrigin: sp("10% 80%"), TTMLExtent: sp("80% 10%")}}},
		Meta: &astisub.Metadata{Title: "many", Language: astisub.LanguageEnglish, Framerate: 25, SSAScriptType: "v4.00+", SSAPlayResX: ip(640), STLDisplayStandardCode: "1",
			STLCountryOfOrigin: "FRA", STLPublisher: "pub", STLCreationDate: &t1, STLRevisionDate: &t2}}
	l.Items = make([]ItemSpec, n)
	for i := range l.Items {
		it := ItemSpec{StartMs: i * 2000, EndMs: i*2000 + 1500, Index: i + 1, Style: "s1"}
		if i%3 == 1 {
			it.Style, it.Region = "s2", "r1"
		}
		it.Lines = []LineSpec{{Items: []LineItemSpec{{Text: "cue number " + strconv.Itoa(i)}}}}
		if i%5 == 0 {
			it.Lines = append(it.Lines, LineSpec{Items: []LineItemSpec{{Text: "second line of " + strconv.Itoa(i)}}})
		}
		l.Items[i] = it
	}
	if n > 0 {
		l.Items[n-1].Lines = []LineSpec{{Items: []LineItemSpec{{Text: "the very last cue ends with lastword" + strconv.Itoa(n)}}}}
	}
	return l
}

// ExtremeTimes reports whether the list has cues before zero or beyond ten hours. Fragment is quadratic in
// (duration / period): such a list cut every second never finishes - an input the workloads must not combine
// with Fragment / ForceDuration (C08/C10 territory, not what C19 and C20 are about).
func (l ListSpec) ExtremeTimes() bool {
	for _, it := range l.Items {
		if it.StartMs < 0 || it.EndMs > 36000000 || it.StartMs > 36000000 {
			return true
		}
	}
	return false
}
