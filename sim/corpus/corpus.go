// Package corpus supplies the workload: the repository's testdata inputs and
// seeded generated documents for every format. Generators aim at syntactic
// variety that stresses stream handling (line terminators, BOM, block and
// buffer boundaries); they never assert what a document denotes.
package corpus

import (
	"fmt"
	"os"
	"path/filepath"
	"sort"
	"strings"

	"verif/sim/prng"
)

// Doc is one input document.
type Doc struct {
	Name   string `json:"name"`
	Format string `json:"format"` // srt vtt ssa stl ttml ts
	Data   []byte `json:"-"`
	Cues   int    `json:"cues"` // number of cues by construction, -1 unknown
	Gen    bool   `json:"gen"`
}

// FormatOfExt maps a file extension to a corpus format.
func FormatOfExt(ext string) string {
	switch strings.ToLower(ext) {
	case ".srt":
		return "srt"
	case ".vtt":
		return "vtt"
	case ".ssa", ".ass":
		return "ssa"
	case ".stl":
		return "stl"
	case ".ttml":
		return "ttml"
	case ".ts":
		return "ts"
	}
	return ""
}

// ReaderConfigs returns the reader configurations (api.ReaderFormats names) that apply to a corpus format.
func ReaderConfigs(format string) []string {
	switch format {
	case "ssa":
		return []string{"ssa", "ssa-opts", "ssa-cb"}
	case "stl":
		return []string{"stl", "stl-ignoretc"}
	case "ts":
		return []string{"ts", "ts-auto", "ts-pid", "ts-page"}
	}
	return []string{format}
}

// LoadTestdata reads every file of <repo>/testdata that has a known extension
// (inputs and goldens alike: a golden is just another document).
func LoadTestdata(repo string) ([]Doc, error) {
	dir := filepath.Join(repo, "testdata")
	es, err := os.ReadDir(dir)
	if err != nil {
		return nil, err
	}
	var docs []Doc
	for _, e := range es {
		f := FormatOfExt(filepath.Ext(e.Name()))
		if e.IsDir() || f == "" {
			continue
		}
		b, err := os.ReadFile(filepath.Join(dir, e.Name()))
		if err != nil {
			return nil, err
		}
		docs = append(docs, Doc{Name: "testdata/" + e.Name(), Format: f, Data: b, Cues: -1})
	}
	sort.Slice(docs, func(i, j int) bool { return docs[i].Name < docs[j].Name })
	return docs, nil
}

// ---- shared helpers --------------------------------------------------------

// words mixes 1-, 2-, 3- and 4-byte UTF-8 sequences (a delivery split can land inside any of them), entities and punctuation
var words = []string{"the", "quick", "brown", "fox", "jumps", "over", "lazy", "dog", "été", "naïve", "Ω", "日本", "&amp;", "&lt;3", "a&nbsp;b", "--", "1", "42", "Hello,", "world!", "¿qué?", "ß", "🎵", "𝄞clef", "e\u0301"}

func sentence(r *prng.R, min, max int) string {
	n := r.Range(min, max)
	var ws []string
	for i := 0; i < n; i++ {
		ws = append(ws, words[r.Intn(len(words))])
	}
	return strings.Join(ws, " ")
}

func asciiSentence(r *prng.R, min, max int) string {
	n := r.Range(min, max)
	var ws []string
	for i := 0; i < n; i++ {
		ws = append(ws, []string{"alpha", "beta", "gamma", "delta", "x", "yy", "zzz", "Hello", "World", "42"}[r.Intn(10)])
	}
	return strings.Join(ws, " ")
}

// eolStyle: 0 LF, 1 CRLF, 2 CR, 3 mixed
type eol struct {
	style int
	r     *prng.R
}

func (e eol) s() string {
	switch e.style {
	case 0:
		return "\n"
	case 1:
		return "\r\n"
	case 2:
		return "\r"
	}
	return []string{"\n", "\r\n", "\r"}[e.r.Intn(3)]
}

func stamp(ms int, sep string) string {
	return fmt.Sprintf("%02d:%02d:%02d%s%03d", ms/3600000, ms/60000%60, ms/1000%60, sep, ms%1000)
}

// padTo appends filler text lines (harmless inside a cue) so that the next byte lands at target.
func fillerTo(b *strings.Builder, target int, e eol) {
	for b.Len() < target {
		left := target - b.Len()
		el := e.s()
		n := left - len(el)
		if n > 70 {
			n = 70
		}
		if n < 1 {
			b.WriteString(strings.Repeat("x", left))
			return
		}
		b.WriteString(strings.Repeat("x", n))
		b.WriteString(el)
	}
}

// ---- SRT -------------------------------------------------------------------

// GenSRT draws an SRT document.
func GenSRT(r *prng.R, idx int) Doc {
	e := eol{r.Intn(4), r}
	var b strings.Builder
	if r.Bool(0.4) {
		b.WriteString("\xef\xbb\xbf")
	}
	n := r.Range(1, 12)
	t := r.Intn(5000)
	align := 0
	if r.Bool(0.5) {
		align = r.PickInt(4094, 4095, 4096, 4097, 8191, 8192)
	}
	for i := 1; i <= n; i++ {
		if r.Bool(0.9) {
			fmt.Fprintf(&b, "%d%s", i, e.s())
		}
		d := r.Range(200, 4000)
		sep := ","
		if r.Bool(0.15) {
			sep = "."
		}
		fmt.Fprintf(&b, "%s --> %s", stamp(t, sep), stamp(t+d, sep))
		if r.Bool(0.1) {
			b.WriteString("  X1:40 X2:600 Y1:20 Y2:50")
		}
		b.WriteString(e.s())
		t += d + r.Intn(1000)
		nl := r.Range(1, 3)
		for j := 0; j < nl; j++ {
			txt := sentence(r, 1, 8)
			switch r.Intn(8) {
			case 0:
				txt = "<i>" + txt + "</i>"
			case 1:
				txt = "<b>" + txt + "</b> " + sentence(r, 1, 3)
			case 2:
				txt = `<font color="#ff00ff">` + txt + "</font>"
			case 3:
				txt = "<u><i>" + txt + "</i></u>"
			}
			b.WriteString(txt)
			b.WriteString(e.s())
		}
		if align > 0 && i == n/2+1 && b.Len() < align-3 {
			// land the terminator of a text line exactly on a buffer boundary
			el := e.s()
			fillerTo(&b, align-len(el)+r.Intn(2), e)
			b.WriteString("edge" + el)
		}
		if i < n || r.Bool(0.7) {
			b.WriteString(e.s())
			if r.Bool(0.1) {
				b.WriteString(e.s())
			}
		}
	}
	return Doc{Name: fmt.Sprintf("gen-srt-%d-eol%d", idx, e.style), Format: "srt", Data: []byte(b.String()), Cues: n, Gen: true}
}

// ---- WebVTT ----------------------------------------------------------------

// GenVTT draws a WebVTT document.
func GenVTT(r *prng.R, idx int) Doc {
	e := eol{r.Intn(4), r}
	var b strings.Builder
	if r.Bool(0.3) {
		b.WriteString("\xef\xbb\xbf")
	}
	if r.Bool(0.15) { // something before the signature line: the reader skips up to it
		b.WriteString(r.Pick("", "\ufeff", "junk before the header", "   ") + e.s())
		if r.Bool(0.3) {
			b.WriteString(e.s())
		}
	}
	b.WriteString("WEBVTT")
	if r.Bool(0.3) {
		b.WriteString(" - " + asciiSentence(r, 1, 3))
	}
	b.WriteString(e.s())
	if r.Bool(0.3) {
		fmt.Fprintf(&b, "X-TIMESTAMP-MAP=LOCAL:%s,MPEGTS:%d%s", stamp(r.Intn(10000), "."), r.Intn(1000000), e.s())
	}
	if r.Bool(0.3) { // header lines of the "Name: value" kind, as produced by several encoders
		hs := []string{"Kind: captions", "Language: en", "X-Origin: unit 7", "Source: somewhere", "Copyright: nobody", "Version: 2"}
		for _, k := range r.Perm(len(hs))[:r.Range(2, 5)] {
			b.WriteString(hs[k] + e.s())
		}
	}
	b.WriteString(e.s())
	nreg := 0
	if r.Bool(0.4) {
		nreg = r.Range(1, 3)
		for i := 0; i < nreg; i++ {
			fmt.Fprintf(&b, "Region: id=r%d width=%d%% lines=%d regionanchor=0%%,100%% viewportanchor=10%%,90%% scroll=up%s", i, r.Range(10, 90), r.Range(1, 5), e.s())
		}
		b.WriteString(e.s())
	}
	if r.Bool(0.4) {
		ns := r.Range(1, 2)
		for i := 0; i < ns; i++ {
			fmt.Fprintf(&b, "STYLE%s::cue(.c%d) {%s  color: #%06x;%s}%s%s", e.s(), i, e.s(), r.Intn(1<<24), e.s(), e.s(), e.s())
		}
	}
	n := r.Range(1, 10)
	t := r.Intn(3000)
	align := 0
	if r.Bool(0.4) {
		align = r.PickInt(4095, 4096, 4097)
	}
	for i := 1; i <= n; i++ {
		if r.Bool(0.25) {
			fmt.Fprintf(&b, "NOTE %s%s", asciiSentence(r, 1, 5), e.s())
			if r.Bool(0.5) {
				b.WriteString(asciiSentence(r, 1, 4) + e.s())
			}
			b.WriteString(e.s())
		}
		if r.Bool(0.7) {
			fmt.Fprintf(&b, "%d%s", i, e.s())
		}
		d := r.Range(200, 4000)
		fmt.Fprintf(&b, "%s --> %s", stamp(t, "."), stamp(t+d, "."))
		if r.Bool(0.4) {
			b.WriteString(" " + r.Pick("align:left", "align:middle", "line:10%", "position:50%", "size:80%", "vertical:rl", "line:0 position:10% align:right"))
		}
		if nreg > 0 && r.Bool(0.4) {
			fmt.Fprintf(&b, " region:r%d", r.Intn(nreg))
		}
		b.WriteString(e.s())
		t += d + r.Intn(1000)
		nl := r.Range(1, 3)
		for j := 0; j < nl; j++ {
			txt := sentence(r, 1, 7)
			switch r.Intn(9) {
			case 0:
				txt = "<v Roger Bingham>" + txt
			case 1:
				txt = "<i>" + txt + "</i>"
			case 2:
				txt = "<c.yellow.bg_blue>" + txt + "</c>"
			case 3:
				txt = txt + " <00:00:05.000>" + sentence(r, 1, 3)
			case 4:
				txt = "<b><u>" + txt + "</u></b>"
			}
			b.WriteString(txt + e.s())
		}
		if align > 0 && i == n/2+1 && b.Len() < align-3 {
			el := e.s()
			fillerTo(&b, align-len(el)+r.Intn(2), e)
			b.WriteString("edge" + el)
		}
		if i < n || r.Bool(0.6) {
			b.WriteString(e.s())
		}
	}
	return Doc{Name: fmt.Sprintf("gen-vtt-%d-eol%d", idx, e.style), Format: "vtt", Data: []byte(b.String()), Cues: n, Gen: true}
}

// ---- SSA -------------------------------------------------------------------

// GenSSA draws an SSA/ASS document.
func GenSSA(r *prng.R, idx int) Doc {
	e := eol{r.Intn(4), r}
	var b strings.Builder
	if r.Bool(0.3) {
		b.WriteString("\xef\xbb\xbf")
	}
	v4p := r.Bool(0.5)
	b.WriteString("[Script Info]" + e.s())
	if r.Bool(0.6) {
		b.WriteString("; " + asciiSentence(r, 1, 5) + e.s())
	}
	b.WriteString("Title: " + asciiSentence(r, 1, 3) + e.s())
	if v4p {
		b.WriteString("ScriptType: v4.00+" + e.s())
	} else {
		b.WriteString("ScriptType: v4.00" + e.s())
	}
	if r.Bool(0.5) {
		fmt.Fprintf(&b, "PlayResX: %d%sPlayResY: %d%s", r.Range(100, 2000), e.s(), r.Range(100, 2000), e.s())
	}
	if r.Bool(0.3) {
		b.WriteString("Timer: 100,0000" + e.s())
	}
	if r.Bool(0.3) {
		b.WriteString("Collisions: Normal" + e.s())
	}
	b.WriteString(e.s())
	ns := r.Range(0, 4)
	if ns > 0 {
		if v4p {
			b.WriteString("[V4+ Styles]" + e.s())
		} else {
			b.WriteString("[V4 Styles]" + e.s())
		}
		b.WriteString("Format: Name, Fontname, Fontsize, PrimaryColour, SecondaryColour, Bold, Italic, BorderStyle, Outline, Shadow, Alignment, MarginL, MarginR, MarginV, Encoding" + e.s())
		for i := 0; i < ns; i++ {
			fmt.Fprintf(&b, "Style: S%d,Arial,%d,&H%08X,%d,%d,0,1,%d,0,2,10,10,%d,0%s", i, r.Range(8, 40), r.Intn(1<<24), r.Intn(1<<24), -r.Intn(2), r.Range(0, 3), r.Range(0, 30), e.s())
		}
		b.WriteString(e.s())
	}
	if r.Bool(0.2) {
		b.WriteString("[Fonts]" + e.s() + "fontname: foo.ttf" + e.s() + e.s())
	}
	b.WriteString("[Events]" + e.s())
	first := "Marked"
	if v4p {
		first = "Layer"
	}
	b.WriteString("Format: " + first + ", Start, End, Style, Name, MarginL, MarginR, MarginV, Effect, Text" + e.s())
	n := r.Range(1, 10)
	t := r.Intn(3000)
	align := 0
	if r.Bool(0.4) {
		align = r.PickInt(4095, 4096, 4097)
	}
	twoFormats, second := r.Bool(0.15), false
	for i := 0; i < n; i++ {
		d := r.Range(200, 4000)
		fv := "Marked=0"
		if v4p {
			fv = "0"
		}
		style := "Default"
		if ns > 0 {
			style = fmt.Sprintf("S%d", r.Intn(ns))
			if r.Bool(0.2) {
				style = "*" + style
			}
		}
		txt := sentence(r, 1, 8)
		switch r.Intn(6) {
		case 0:
			txt = `{\an8}` + txt
		case 1:
			txt = txt + `\N` + sentence(r, 1, 4)
		case 2:
			txt = txt + `, with, commas {\i1}it{\i0} ` + `\n` + sentence(r, 1, 3)
		}
		ssaStamp := func(ms int) string {
			return fmt.Sprintf("%d:%02d:%02d.%02d", ms/3600000, ms/60000%60, ms/1000%60, ms%1000/10)
		}
		if second {
			fmt.Fprintf(&b, "Dialogue: %s,%s,%s,%s,%s,0,0,0,,%s%s", ssaStamp(t), ssaStamp(t+d), fv, r.Pick("", "Bob", "Alice"), style, txt, e.s())
		} else {
			fmt.Fprintf(&b, "Dialogue: %s,%s,%s,%s,%s,0,0,0,,%s%s", fv, ssaStamp(t), ssaStamp(t+d), style, r.Pick("", "Bob", "Alice"), txt, e.s())
		}
		if twoFormats && !second && i == (n-1)/2 && i < n-1 {
			// a second Format line in the same section: the columns of the remaining events are ordered differently
			second = true
			b.WriteString("Format: Start, End, " + first + ", Name, Style, MarginL, MarginR, MarginV, Effect, Text" + e.s())
		}
		t += d + r.Intn(500)
		if r.Bool(0.1) {
			if second {
				b.WriteString("Comment: 0:00:00.00,0:00:01.00," + fv + ",,Default,0,0,0,,ignored" + e.s())
			} else {
				b.WriteString("Comment: " + fv + ",0:00:00.00,0:00:01.00,Default,,0,0,0,,ignored" + e.s())
			}
		}
		if align > 0 && i == n/2 && b.Len() < align-3 {
			el := e.s()
			for b.Len() < align-len(el)-80 {
				b.WriteString("; " + strings.Repeat("c", 60) + e.s())
			}
			pad := align - len(el) - b.Len() + r.Intn(2)
			if pad > 2 {
				b.WriteString("; " + strings.Repeat("c", pad-2) + el)
			}
		}
	}
	return Doc{Name: fmt.Sprintf("gen-ssa-%d-eol%d", idx, e.style), Format: "ssa", Data: []byte(b.String()), Cues: n, Gen: true}
}

// ---- TTML ------------------------------------------------------------------

// GenTTML draws a TTML document.
func GenTTML(r *prng.R, idx int) Doc {
	nl := "\n"
	if r.Bool(0.3) {
		nl = "\r\n"
	}
	ind := func(n int) string {
		if r.Bool(0.8) {
			return strings.Repeat("  ", n)
		}
		return ""
	}
	var b strings.Builder
	if r.Bool(0.6) {
		b.WriteString(`<?xml version="1.0" encoding="UTF-8"?>` + nl)
	}
	// frame and tick rates are optional: a document that uses frames / ticks without declaring the rate is legal input too
	rates := ""
	if r.Bool(0.75) {
		rates += fmt.Sprintf(` ttp:frameRate="%d"`, r.PickInt(24, 25, 30))
	}
	if r.Bool(0.7) {
		rates += fmt.Sprintf(` ttp:tickRate="%d"`, r.PickInt(1000, 10000000))
	}
	fmt.Fprintf(&b, `<tt xml:lang="%s" xmlns="http://www.w3.org/ns/ttml" xmlns:tts="http://www.w3.org/ns/ttml#styling" xmlns:ttm="http://www.w3.org/ns/ttml#metadata" xmlns:ttp="http://www.w3.org/ns/ttml#parameter"%s>%s`,
		r.Pick("en", "fr", "ja", "xx", "pt-PT", "pt-BR", "de-AT", "de", "fr-FR", "xx-A", "xx-B"), rates, nl)
	b.WriteString(ind(1) + "<head>" + nl)
	if r.Bool(0.6) {
		b.WriteString(ind(2) + "<metadata>" + nl + ind(3) + "<ttm:title>" + asciiSentence(r, 1, 3) + "</ttm:title>" + nl + ind(3) + "<ttm:copyright>(c) " + asciiSentence(r, 1, 2) + "</ttm:copyright>" + nl + ind(2) + "</metadata>" + nl)
	}
	ns := r.Range(0, 4)
	if ns > 0 {
		b.WriteString(ind(2) + "<styling>" + nl)
		for i := 0; i < ns; i++ {
			parent := ""
			if i > 0 && r.Bool(0.4) {
				parent = fmt.Sprintf(` style="s%d"`, r.Intn(i))
			}
			fmt.Fprintf(&b, `%s<style xml:id="s%d"%s tts:color="%s" tts:fontSize="%d%%" tts:textAlign="%s"/>%s`, ind(3), i, parent, r.Pick("white", "#ff0000", "yellow"), r.Range(50, 150), r.Pick("center", "left", "right"), nl)
		}
		b.WriteString(ind(2) + "</styling>" + nl)
	}
	nreg := r.Range(0, 3)
	if nreg > 0 {
		b.WriteString(ind(2) + "<layout>" + nl)
		for i := 0; i < nreg; i++ {
			st := ""
			if ns > 0 && r.Bool(0.5) {
				st = fmt.Sprintf(` style="s%d"`, r.Intn(ns))
			}
			fmt.Fprintf(&b, `%s<region xml:id="r%d"%s tts:origin="%d%% %d%%" tts:extent="%d%% %d%%" tts:displayAlign="after"/>%s`, ind(3), i, st, r.Range(0, 50), r.Range(0, 90), r.Range(10, 100), r.Range(5, 40), nl)
		}
		b.WriteString(ind(2) + "</layout>" + nl)
	}
	b.WriteString(ind(1) + "</head>" + nl + ind(1) + "<body>" + nl + ind(2) + "<div>" + nl)
	n := r.Range(1, 10)
	t := r.Intn(3000)
	for i := 0; i < n; i++ {
		d := r.Range(200, 4000)
		var begin, end string
		switch r.Intn(4) {
		case 0:
			begin, end = stamp(t, "."), stamp(t+d, ".")
		case 1:
			begin, end = fmt.Sprintf("%02d:%02d:%02d:%02d", t/3600000, t/60000%60, t/1000%60, r.Intn(24)), fmt.Sprintf("%02d:%02d:%02d:%02d", (t+d)/3600000, (t+d)/60000%60, (t+d)/1000%60, r.Intn(24))
		case 2:
			begin, end = fmt.Sprintf("%d.%ds", t/1000, t%1000/100), fmt.Sprintf("%dms", t+d)
		default:
			begin, end = fmt.Sprintf("%dt", t*10), fmt.Sprintf("%dt", (t+d)*10)
		}
		attrs := ""
		if nreg > 0 && r.Bool(0.5) {
			attrs += fmt.Sprintf(` region="r%d"`, r.Intn(nreg))
		}
		if ns > 0 && r.Bool(0.5) {
			attrs += fmt.Sprintf(` style="s%d"`, r.Intn(ns))
		}
		if r.Bool(0.2) {
			attrs += ` tts:color="cyan"`
		}
		fmt.Fprintf(&b, `%s<p begin="%s" end="%s"%s>`, ind(3), begin, end, attrs)
		np := r.Range(1, 3)
		for j := 0; j < np; j++ {
			if j > 0 {
				b.WriteString(r.Pick("<br/>", "<br />", "<br></br>"))
				if r.Bool(0.3) {
					b.WriteString(nl + ind(4))
				}
			}
			txt := strings.NewReplacer("&nbsp;", "&#160;").Replace(sentence(r, 1, 6))
			if r.Bool(0.4) {
				st := ""
				if ns > 0 && r.Bool(0.5) {
					st = fmt.Sprintf(` style="s%d"`, r.Intn(ns))
				}
				fmt.Fprintf(&b, `<span%s tts:fontStyle="italic">%s</span>`, st, txt)
			} else {
				b.WriteString(txt)
			}
		}
		b.WriteString("</p>" + nl)
		t += d + r.Intn(800)
	}
	b.WriteString(ind(2) + "</div>" + nl + ind(1) + "</body>" + nl + "</tt>")
	if r.Bool(0.5) {
		b.WriteString(nl)
	}
	return Doc{Name: fmt.Sprintf("gen-ttml-%d", idx), Format: "ttml", Data: []byte(b.String()), Cues: n, Gen: true}
}

// ---- STL -------------------------------------------------------------------

func padField(s string, n int) []byte {
	b := []byte(s)
	for len(b) < n {
		b = append(b, ' ')
	}
	return b[:n]
}

// BuildSTL assembles an EBU STL file. dsc: '0' open subtitling, '1' teletext level 1.
// STLVariant tweaks header fields of the next BuildSTL call: TNB is the "total number of TTI blocks" field as text
// ("" = the true count; it may be blank or stale in real files), CCT the character code table number ("00" Latin).
type STLVariant struct {
	TNB, CCT string
	Dates    string // "": both dates set; "blank": creation and revision date blank; "rd-blank": revision date blank
}

// BuildSTLVariant is BuildSTL with header field overrides.
func BuildSTLVariant(fps int, dsc byte, title string, tcp string, blocks [][]byte, v STLVariant) []byte {
	b := BuildSTL(fps, dsc, title, tcp, blocks)
	if v.CCT != "" {
		copy(b[12:14], v.CCT)
	}
	if v.TNB != "" {
		copy(b[238:243], padField(v.TNB, 5))
	}
	switch v.Dates {
	case "blank":
		copy(b[224:236], "            ")
	case "rd-blank":
		copy(b[230:236], "      ")
	}
	return b
}

func BuildSTL(fps int, dsc byte, title string, tcp string, blocks [][]byte) []byte {
	g := make([]byte, 0, 1024)
	g = append(g, "850"...)
	g = append(g, fmt.Sprintf("STL%d.01", fps)...)
	g = append(g, dsc)
	g = append(g, "00"...) // CCT latin
	g = append(g, "0F"...) // LC
	g = append(g, padField(title, 32)...)
	g = append(g, padField("episode", 32)...)
	g = append(g, padField("", 32)...)
	g = append(g, padField("", 32)...)
	g = append(g, padField("translator", 32)...)
	g = append(g, padField("", 32)...)
	g = append(g, padField("ref", 16)...)
	g = append(g, "170702"...) // CD
	g = append(g, "170702"...) // RD
	g = append(g, "01"...)     // RN
	g = append(g, fmt.Sprintf("%05d", len(blocks))...)
	g = append(g, fmt.Sprintf("%05d", len(blocks))...)
	g = append(g, "001"...)
	g = append(g, "40"...)
	g = append(g, "23"...)
	g = append(g, '1')
	g = append(g, padField(tcp, 8)...)
	g = append(g, "00000000"...)
	g = append(g, '1', '1')
	g = append(g, "FRA"...)
	g = append(g, padField("publisher", 32)...)
	g = append(g, padField("editor", 32)...)
	g = append(g, padField("contact", 32)...)
	for len(g) < 1024 {
		g = append(g, ' ')
	}
	for _, b := range blocks {
		g = append(g, b...)
	}
	return g
}

// TTI builds one 128-byte TTI block.
func TTI(sn int, ebn byte, in, out [4]byte, vp, jc byte, text []byte) []byte {
	b := make([]byte, 0, 128)
	b = append(b, 0, byte(sn), byte(sn>>8), ebn, 0)
	b = append(b, in[:]...)
	b = append(b, out[:]...)
	b = append(b, vp, jc, 0)
	b = append(b, text...)
	for len(b) < 128 {
		b = append(b, 0x8f)
	}
	return b[:128]
}

// GenSTL draws an STL file.
func GenSTL(r *prng.R, idx int) Doc {
	fps := r.PickInt(25, 30)
	dsc := byte('1')
	if r.Bool(0.35) {
		dsc = '0'
	}
	n := r.Range(1, 40)
	if r.Bool(0.7) {
		n = r.Range(1, 8)
	}
	var blocks [][]byte
	cues := 0
	t := r.Intn(100)
	for i := 0; i < n; i++ {
		if r.Bool(0.12) {
			blocks = append(blocks, TTI(i, 0xfe, [4]byte{}, [4]byte{}, 0, 0, []byte("user data "+asciiSentence(r, 1, 3))))
			continue
		}
		var text []byte
		rows := r.Range(1, 3)
		for j := 0; j < rows; j++ {
			if j > 0 {
				text = append(text, 0x8a)
			}
			if dsc == '1' {
				text = append(text, 0x0b, 0x0b)
				if r.Bool(0.3) {
					text = append(text, byte(r.Intn(8)))
				}
			}
			w := []byte(asciiSentence(r, 1, 4))
			if r.Bool(0.3) {
				w = append(w, ' ', 0xc2, 'e', 0xc8, 'u', 0xc1, 'a') // floating diacritics
			}
			if r.Bool(0.2) {
				w = append(append([]byte{0x80}, w...), 0x81)
			}
			if r.Bool(0.1) {
				w = append(append([]byte{0x82}, w...), 0x83)
			}
			text = append(text, w...)
			if dsc == '1' && r.Bool(0.5) {
				text = append(text, 0x0a, 0x0a)
			}
		}
		if r.Bool(0.08) { // a floating diacritic with nothing behind it, at the very end of the text field
			text = append(text, 0xc2)
		}
		if len(text) > 112 {
			text = text[:112]
		}
		d := r.Range(1, 5)
		in := [4]byte{0, byte(t / 60 % 60), byte(t % 60), byte(r.Intn(fps))}
		out := [4]byte{0, byte((t + d) / 60 % 60), byte((t + d) % 60), byte(r.Intn(fps))}
		t += d + r.Intn(3)
		if r.Bool(0.12) && len(text) > 8 { // a subtitle spread over two blocks: extension block first, then the last block
			blocks = append(blocks, TTI(i, 0x00, in, out, byte(r.Range(1, 23)), byte(r.Intn(4)), text[:len(text)/2]))
			text = text[len(text)/2:]
			cues++
		}
		blocks = append(blocks, TTI(i, 0xff, in, out, byte(r.Range(1, 23)), byte(r.Intn(4)), text))
		cues++
	}
	tcp := "00000000"
	if r.Bool(0.3) {
		tcp = "00000100"
	}
	// the block count announced in the header is not always right in real files: blank, or stale (smaller than the file)
	v := STLVariant{}
	switch r.Intn(6) {
	case 0:
		v.TNB = "     "
	case 1:
		v.TNB = fmt.Sprintf("%05d", len(blocks)/2)
	}
	v.Dates = r.Pick("", "", "", "blank", "rd-blank") // real files often leave the dates blank
	return Doc{Name: fmt.Sprintf("gen-stl-%d-dsc%c", idx, dsc), Format: "stl", Data: BuildSTLVariant(fps, dsc, asciiSentence(r, 1, 2), tcp, blocks, v), Cues: cues, Gen: true}
}

// ---- assembly --------------------------------------------------------------

// Gen draws one document of the given format.
func Gen(format string, r *prng.R, idx int) Doc {
	switch format {
	case "srt":
		return GenSRT(r, idx)
	case "vtt":
		return GenVTT(r, idx)
	case "ssa":
		return GenSSA(r, idx)
	case "ttml":
		return GenTTML(r, idx)
	case "stl":
		return GenSTL(r, idx)
	case "ts":
		return GenTS(r, idx)
	}
	panic("corpus: unknown format " + format)
}

// Formats lists the corpus formats.
var Formats = []string{"srt", "vtt", "ssa", "stl", "ttml", "ts"}

// Generated returns perFormat seeded documents of every format.
func Generated(root *prng.R, perFormat int) []Doc {
	var docs []Doc
	for _, f := range Formats {
		for i := 0; i < perFormat; i++ {
			docs = append(docs, Gen(f, root.Derive("gen-"+f, i), i))
		}
	}
	return append(docs, Fixed()...)
}

// Fixed returns hand-written documents with features the generators draw only now and then: WebVTT header lines of
// the "Name: value" kind, SSA events that re-declare their columns, UTF-16 input (rejected by every reader today).
func Fixed() []Doc {
	vtt := "WEBVTT - with headers\nKind: captions\nLanguage: en\nX-Origin: unit 7\nSource: somewhere\nCopyright: nobody\n\n" +
		"1\n00:00:01.000 --> 00:00:02.000\nfirst\n\n2\n00:00:03.000 --> 00:00:04.000 align:left\n<v Bob>second\nline\n\n3\n00:00:05.000 --> 00:00:06.000\nthird\n"
	ttml := `<?xml version="1.0" encoding="UTF-8"?>
<tt xml:lang="en" xmlns="http://www.w3.org/ns/ttml"><head><styling><style xml:id="s1" tts:color="white" xmlns:tts="http://www.w3.org/ns/ttml#styling"/></styling></head>
<body><div><p begin="00:00:01.000" end="00:00:02.000" style="s1">sixteen 😀 smile</p><p begin="00:00:03.000" end="00:00:04.000">bits é中🎵</p></div></body></tt>`
	t := Doc{Name: "fixed-ttml", Format: "ttml", Data: []byte(ttml), Cues: 2, Gen: true}
	// STL: the very last character is a floating diacritic with nothing behind it (pending state at the end of the
	// parse); one subtitle is spread over an extension block and a last block
	stlBlocks := [][]byte{
		TTI(0, 0xff, [4]byte{0, 0, 1, 0}, [4]byte{0, 0, 2, 0}, 20, 2, []byte{0x0b, 0x0b, 'o', 'n', 'e'}),
		TTI(1, 0x00, [4]byte{0, 0, 3, 0}, [4]byte{0, 0, 4, 0}, 20, 2, []byte{0x0b, 0x0b, 'f', 'i', 'r', 's', 't', ' ', 'h', 'a', 'l', 'f'}),
		TTI(1, 0xff, [4]byte{0, 0, 3, 0}, [4]byte{0, 0, 4, 0}, 20, 2, []byte{0x0b, 0x0b, 's', 'e', 'c', 'o', 'n', 'd', ' ', 'h', 'a', 'l', 'f'}),
		TTI(2, 0xff, [4]byte{0, 0, 5, 0}, [4]byte{0, 0, 6, 0}, 20, 2, []byte{0x0b, 0x0b, 'd', 'a', 'n', 'g', 'l', 'i', 'n', 'g', ' ', 0xc2}),
	}
	return []Doc{
		{Name: "fixed-stl-dangling-accent", Format: "stl", Data: BuildSTL(25, '1', "fixed", "00000000", stlBlocks), Cues: 4, Gen: true},
		{Name: "fixed-stl-blank-dates", Format: "stl", Data: BuildSTLVariant(30, '1', "blank dates", "00000000", stlBlocks[:2], STLVariant{Dates: "blank"}), Cues: 2, Gen: true},
		{Name: "fixed-vtt-headers", Format: "vtt", Data: []byte(vtt), Cues: 3, Gen: true},
		SSATwoFormats(false), SSATwoFormats(true),
		UTF16(t, false), UTF16(t, true),
		UTF16(Doc{Name: "fixed-vtt-headers", Format: "vtt", Data: []byte(vtt)}, false),
		UTF16(Doc{Name: "fixed-srt", Format: "srt", Data: []byte("1\n00:00:01,000 --> 00:00:02,000\nsixteen bits\n")}, true),
	}
}

// Mutate derives an (often invalid) document from d: truncate, flip, splice.
func Mutate(r *prng.R, d Doc, idx int) Doc {
	b := append([]byte(nil), d.Data...)
	kind := r.Intn(4)
	if len(b) < 4 {
		kind = 1
	}
	switch kind {
	case 0:
		b = b[:r.Intn(len(b))]
	case 1:
		for k := r.Range(1, 3); k > 0 && len(b) > 0; k-- {
			b[r.Intn(len(b))] ^= byte(1 << uint(r.Intn(8)))
		}
	case 2:
		i, j := r.Intn(len(b)), r.Intn(len(b))
		if i > j {
			i, j = j, i
		}
		b = append(b[:i], b[j:]...)
	case 3:
		i, j := r.Intn(len(b)), r.Intn(len(b))
		if i > j {
			i, j = j, i
		}
		seg := append([]byte(nil), b[i:j]...)
		k := r.Intn(len(b))
		b = append(b[:k], append(seg, b[k:]...)...)
	}
	return Doc{Name: fmt.Sprintf("%s~mut%d.%d", d.Name, idx, kind), Format: d.Format, Data: b, Cues: -1, Gen: true}
}

// Large builds a big line-oriented document (size bytes or more) of the given
// text format whose line terminators hit the 4096/65536 buffer boundaries.
func Large(format string, r *prng.R, size int) Doc {
	e := eol{1, r} // CRLF throughout: every boundary is a potential CR|LF split
	var b strings.Builder
	n := 0
	switch format {
	case "srt":
		t := 0
		for b.Len() < size {
			n++
			fmt.Fprintf(&b, "%d%s%s --> %s%s%s%s%s", n, e.s(), stamp(t, ","), stamp(t+900, ","), e.s(), asciiSentence(r, 1, 12), e.s(), e.s())
			t += 1000
		}
	case "vtt":
		b.WriteString("WEBVTT" + e.s() + e.s())
		t := 0
		for b.Len() < size {
			n++
			fmt.Fprintf(&b, "%d%s%s --> %s%s%s%s%s", n, e.s(), stamp(t, "."), stamp(t+900, "."), e.s(), asciiSentence(r, 1, 12), e.s(), e.s())
			t += 1000
		}
	case "ssa":
		b.WriteString("[Script Info]" + e.s() + "Title: big" + e.s() + e.s() + "[Events]" + e.s() + "Format: Marked, Start, End, Style, Name, MarginL, MarginR, MarginV, Effect, Text" + e.s())
		t := 0
		for b.Len() < size {
			n++
			fmt.Fprintf(&b, "Dialogue: Marked=0,0:%02d:%02d.00,0:%02d:%02d.90,Default,,0,0,0,,%s%s", t/60%60, t%60, t/60%60, t%60, asciiSentence(r, 1, 12), e.s())
			t++
		}
	case "stl":
		var blocks [][]byte
		for t := 0; 1024+128*len(blocks) < size; t += 2 {
			n++
			text := append([]byte{0x0b, 0x0b}, asciiSentence(r, 1, 6)...)
			if len(text) > 100 {
				text = text[:100]
			}
			blocks = append(blocks, TTI(n-1, 0xff, [4]byte{byte(t / 3600), byte(t / 60 % 60), byte(t % 60), 0}, [4]byte{byte((t + 1) / 3600), byte((t + 1) / 60 % 60), byte((t + 1) % 60), 12}, 20, 2, text))
		}
		return Doc{Name: fmt.Sprintf("large-stl-%d", size), Format: format, Data: BuildSTL(25, '1', "large", "00000000", blocks), Cues: n, Gen: true}
	default:
		panic("corpus: Large: unsupported format " + format)
	}
	return Doc{Name: fmt.Sprintf("large-%s-%d", format, size), Format: format, Data: []byte(b.String()), Cues: n, Gen: true}
}

// LongLine builds a document of c cues in which one line (chosen by where) has
// length lineLen. where: "text", "timing", "first".
func LongLine(format string, c, at int, where string, lineLen int) Doc {
	var b strings.Builder
	long := strings.Repeat("L", lineLen)
	switch format {
	case "srt", "vtt":
		sep := ","
		if format == "vtt" {
			sep = "."
			b.WriteString("WEBVTT\n\n")
		}
		for i := 0; i < c; i++ {
			fmt.Fprintf(&b, "%d\n%s --> %s", i+1, stamp(i*1000, sep), stamp(i*1000+900, sep))
			if i == at && where == "timing" {
				b.WriteString(" " + long)
			}
			b.WriteString("\n")
			if i == at && where == "text" {
				b.WriteString(long + "\n")
			} else {
				fmt.Fprintf(&b, "cue %d\n", i)
			}
			b.WriteString("\n")
		}
	case "ssa":
		b.WriteString("[Script Info]\nTitle: long\n\n[Events]\nFormat: Marked, Start, End, Style, Name, MarginL, MarginR, MarginV, Effect, Text\n")
		for i := 0; i < c; i++ {
			txt := fmt.Sprintf("cue %d", i)
			if i == at {
				txt = `{\p1}` + long
			}
			fmt.Fprintf(&b, "Dialogue: Marked=0,0:00:%02d.00,0:00:%02d.90,Default,,0,0,0,,%s\n", i%60, i%60, txt)
		}
	}
	return Doc{Name: fmt.Sprintf("longline-%s-%s-at%d-len%d", format, where, at, lineLen), Format: format, Data: []byte(b.String()), Cues: c, Gen: true}
}

// LongLineBase returns a small, structurally rich document of a line-oriented
// format (every kind of section the reader knows, plus one it does not) with
// its number of cues. InsertLine puts an extra line before line k of it.
func LongLineBase(format string) (doc []byte, cues int) {
	switch format {
	case "srt":
		return []byte("1\n00:00:01,000 --> 00:00:02,000\nfirst <i>cue</i>\n\n2\n00:00:03,000 --> 00:00:04,000 X1:1 X2:2\nsecond\nline\n\n3\n00:00:05,000 --> 00:00:06,000\nthird\n\n4\n00:00:07,000 --> 00:00:08,000\nfourth\n\n5\n00:00:09,000 --> 00:00:10,000\nfifth\n"), 5
	case "vtt":
		return []byte("WEBVTT - title\nX-TIMESTAMP-MAP=LOCAL:00:00:00.000,MPEGTS:900000\n\nNOTE a comment\nover two lines\n\nSTYLE\n::cue(.a) {\n  color: red;\n}\n\nRegion: id=r0 width=40% lines=3 regionanchor=0%,100% viewportanchor=10%,90% scroll=up\n\n1\n00:00:01.000 --> 00:00:02.000 align:left region:r0\n<v Bob>first\n\nNOTE between cues\n\n2\n00:00:03.000 --> 00:00:04.000\nsecond\nline\n\n00:00:05.000 --> 00:00:06.000 line:10%\nthird <00:00:05.500>timed\n\n4\n00:00:07.000 --> 00:00:08.000\n<c.yellow>fourth</c>\n\n5\n00:00:09.000 --> 00:00:10.000\nfifth\n"), 5
	case "ssa":
		return []byte("[Script Info]\n; a comment\nTitle: base\nScriptType: v4.00+\nPlayResX: 640\n\n[V4+ Styles]\nFormat: Name, Fontname, Fontsize, PrimaryColour, Bold\nStyle: Default,Arial,20,&H00FFFFFF,0\nStyle: Alt,Courier,18,&H0000FFFF,-1\n\n[Fonts]\nfontname: foo.ttf\nM1234567890ABCDEF\n\n[Graphics]\nfilename: logo.bmp\n\n[Events]\nFormat: Layer, Start, End, Style, Name, MarginL, MarginR, MarginV, Effect, Text\nDialogue: 0,0:00:01.00,0:00:02.00,Default,,0,0,0,,first\nComment: 0,0:00:01.00,0:00:02.00,Default,,0,0,0,,not a cue\nDialogue: 0,0:00:03.00,0:00:04.00,Alt,Bob,0,0,0,,second\\Nline\nDialogue: 0,0:00:05.00,0:00:06.00,Default,,0,0,0,,{\\an8}third\nDialogue: 0,0:00:07.00,0:00:08.00,Default,,0,0,0,,fourth, with, commas\nDialogue: 0,0:00:09.00,0:00:10.00,*Default,,0,0,0,,fifth\n"), 5
	}
	panic("corpus: LongLineBase: unsupported format " + format)
}

// InsertLine returns base with a line of n bytes (fill repeated) inserted before its k-th line (k = number of lines: appended).
func InsertLine(base []byte, k, n int, fill byte) []byte {
	lines := strings.SplitAfter(string(base), "\n")
	if k > len(lines) {
		k = len(lines)
	}
	var b strings.Builder
	for i, l := range lines {
		if i == k {
			b.WriteString(strings.Repeat(string(fill), n))
			b.WriteString("\n")
		}
		b.WriteString(l)
	}
	if k == len(lines) {
		b.WriteString(strings.Repeat(string(fill), n))
		b.WriteString("\n")
	}
	return []byte(b.String())
}

// CountLines is the number of line positions of base (for InsertLine).
func CountLines(base []byte) int { return len(strings.SplitAfter(string(base), "\n")) }

// StripTSTables removes the PAT / PMT packets (PID 0 and the PMT PID the muxer uses) from a transport stream:
// a segment of a stream in which no program map is present.
func StripTSTables(ts []byte) []byte {
	var out []byte
	for i := 0; i+188 <= len(ts); i += 188 {
		pid := (int(ts[i+1])&0x1f)<<8 | int(ts[i+2])
		if pid == 0 || pid == 0x1000 {
			continue
		}
		out = append(out, ts[i:i+188]...)
	}
	return out
}

// LargeTTML builds a TTML document with n cues (threshold-triggered code paths: parallel parsing, batching).
func LargeTTML(r *prng.R, n int) Doc {
	var b strings.Builder
	b.WriteString(`<?xml version="1.0" encoding="UTF-8"?>` + "\n" + `<tt xml:lang="en" xmlns="http://www.w3.org/ns/ttml" xmlns:tts="http://www.w3.org/ns/ttml#styling"><head><styling><style xml:id="s0" tts:color="white"/></styling></head><body><div>` + "\n")
	for i := 0; i < n; i++ {
		st := ""
		if r.Bool(0.3) {
			st = ` style="s0"`
		}
		fmt.Fprintf(&b, `<p begin="%s" end="%s"%s>%s<br/>%s</p>`+"\n", stamp(i*1000, "."), stamp(i*1000+900, "."), st, asciiSentence(r, 1, 6), asciiSentence(r, 1, 4))
	}
	b.WriteString("</div></body></tt>\n")
	return Doc{Name: fmt.Sprintf("large-ttml-%dcues", n), Format: "ttml", Data: []byte(b.String()), Cues: n, Gen: true}
}

// WithRun returns d with a run of n copies of fill inserted at a line boundary near the middle.
func WithRun(d Doc, fill byte, n int) Doc {
	k := len(d.Data) / 2
	for k < len(d.Data) && d.Data[k] != '\n' {
		k++
	}
	if k < len(d.Data) {
		k++
	}
	b := append(append(append([]byte(nil), d.Data[:k]...), []byte(strings.Repeat(string(fill), n))...), d.Data[k:]...)
	return Doc{Name: fmt.Sprintf("%s+run%dx%02x", d.Name, n, fill), Format: d.Format, Data: b, Cues: -1, Gen: true}
}

// SSATwoFormats is an SSA document whose [Events] section re-declares its columns half way: the first Format line is
// the one nearly every SSA file carries (v4p: the ASS spelling), the second orders the columns differently.
func SSATwoFormats(v4p bool) Doc {
	first, fv, st, name := "Marked", "Marked=0", "[V4 Styles]", "ssa-two-formats-v4"
	if v4p {
		first, fv, st, name = "Layer", "0", "[V4+ Styles]", "ssa-two-formats-v4plus"
	}
	var b strings.Builder
	b.WriteString("[Script Info]\nTitle: two formats\nScriptType: v4.00")
	if v4p {
		b.WriteString("+")
	}
	b.WriteString("\n\n" + st + "\nFormat: Name, Fontname, Fontsize, PrimaryColour, Bold\nStyle: Default,Arial,20,&H00FFFFFF,0\n\n[Events]\n")
	b.WriteString("Format: " + first + ", Start, End, Style, Name, MarginL, MarginR, MarginV, Effect, Text\n")
	b.WriteString("Dialogue: " + fv + ",0:00:01.00,0:00:02.00,Default,Bob,0,0,0,,first\n")
	b.WriteString("Dialogue: " + fv + ",0:00:03.00,0:00:04.00,Default,,0,0,0,,second\n")
	b.WriteString("Format: Start, End, " + first + ", Name, Style, MarginL, MarginR, MarginV, Effect, Text\n")
	b.WriteString("Dialogue: 0:00:05.00,0:00:06.00," + fv + ",Alice,Default,0,0,0,,third\n")
	b.WriteString("Dialogue: 0:00:07.00,0:00:08.00," + fv + ",,Default,0,0,0,,fourth\n")
	return Doc{Name: name, Format: "ssa", Data: []byte(b.String()), Cues: 4, Gen: true}
}

// UTF16 re-encodes a UTF-8 document as UTF-16 with a byte order mark (TTML: the XML declaration is adjusted). The
// readers reject such input today; it is the input that support for another encoding would start to accept.
func UTF16(d Doc, bigEndian bool) Doc {
	txt := strings.TrimPrefix(string(d.Data), "\xef\xbb\xbf")
	if d.Format == "ttml" {
		txt = strings.Replace(txt, `encoding="UTF-8"`, `encoding="UTF-16"`, 1)
		txt = strings.Replace(txt, `encoding="utf-8"`, `encoding="utf-16"`, 1)
	}
	out := make([]byte, 0, 2*len(txt)+2)
	put := func(u uint16) {
		if bigEndian {
			out = append(out, byte(u>>8), byte(u))
		} else {
			out = append(out, byte(u), byte(u>>8))
		}
	}
	put(0xfeff)
	for _, r := range txt {
		if r >= 0x10000 {
			r -= 0x10000
			put(uint16(0xd800 + (r>>10)&0x3ff))
			put(uint16(0xdc00 + r&0x3ff))
		} else {
			put(uint16(r))
		}
	}
	n := d.Name + "~utf16le"
	if bigEndian {
		n = d.Name + "~utf16be"
	}
	return Doc{Name: n, Format: d.Format, Data: out, Gen: true}
}
