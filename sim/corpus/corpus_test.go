package corpus_test

import (
	"bytes"
	"testing"

	"verif/sim/api"
	"verif/sim/corpus"
	"verif/sim/prng"
)

func TestGeneratedParse(t *testing.T) {
	docs := corpus.Generated(prng.New(1), 30)
	bad := map[string]int{}
	tot := map[string]int{}
	for _, d := range docs {
		for _, cfg := range corpus.ReaderConfigs(d.Format) {
			o := api.ReadOutcome(cfg, bytes.NewReader(d.Data))
			tot[cfg]++
			if o.Class != "ok" {
				bad[cfg]++
				t.Logf("%s %s: %s %.200s", d.Name, cfg, o.Class, o.Err)
				continue
			}
			if d.Cues >= 0 && o.Items != d.Cues {
				t.Logf("%s %s: items %d != cues %d", d.Name, cfg, o.Items, d.Cues)
				bad[cfg]++
			}
			if d.Format == "ts" && o.Items == 0 {
				t.Logf("%s %s: 0 items", d.Name, cfg)
			}
		}
	}
	t.Logf("total %v bad %v", tot, bad)
	for _, f := range []string{"srt", "vtt", "ssa"} {
		d := corpus.Large(f, prng.New(2), 70000)
		o := api.ReadOutcome(f, bytes.NewReader(d.Data))
		t.Logf("%s: %s items=%d cues=%d", d.Name, o.Class, o.Items, d.Cues)
		d = corpus.LongLine(f, 5, 2, "text", 1<<16)
		o = api.ReadOutcome(f, bytes.NewReader(d.Data))
		t.Logf("%s: %s items=%d cues=%d %s", d.Name, o.Class, o.Items, d.Cues, o.Err)
	}
}

func TestLongLineBaseAndNoPMT(t *testing.T) {
	for _, f := range []string{"srt", "vtt", "ssa"} {
		b, c := corpus.LongLineBase(f)
		o := api.ReadOutcome(f, bytes.NewReader(b))
		if o.Class != "ok" || o.Items != c {
			t.Fatalf("%s base: %s items=%d want %d %s", f, o.Class, o.Items, c, o.Err)
		}
		same := 0
		for k := 0; k <= corpus.CountLines(b); k++ {
			o := api.ReadOutcome(f, bytes.NewReader(corpus.InsertLine(b, k, 4, 'L')))
			if o.Class == "ok" && o.Items == c {
				same++
			}
		}
		t.Logf("%s: %d of %d insert positions keep %d cues", f, same, corpus.CountLines(b)+1, c)
	}
	ts := corpus.FixedTS(1, "a#b", 2)
	np := corpus.StripTSTables(ts)
	o := api.ReadOutcome("ts-auto", bytes.NewReader(np))
	o2 := api.ReadOutcome("ts", bytes.NewReader(np))
	t.Logf("ts %d bytes -> no-PMT %d bytes: ts-auto=%s (%s) ts=%s items=%d", len(ts), len(np), o.Class, o.Err, o2.Class, o2.Items)
}
