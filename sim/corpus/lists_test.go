package corpus

import (
	"testing"

	"verif/sim/prng"
)

// A build must share no pointer with the spec or with another build.
func TestBuildSharesNothing(t *testing.T) {
	for i := 0; i < 200; i++ {
		l := GenList(prng.New(uint64(i)), i)
		a, b := l.Build(), l.Build()
		for id, st := range a.Styles {
			if st.InlineStyle == nil {
				continue
			}
			if st.InlineStyle.TTMLColor != nil {
				if st.InlineStyle.TTMLColor == b.Styles[id].InlineStyle.TTMLColor {
					t.Fatal("TTMLColor pointer shared between builds")
				}
				*st.InlineStyle.TTMLColor = "CHANGED"
				if *b.Styles[id].InlineStyle.TTMLColor == "CHANGED" || *l.Build().Styles[id].InlineStyle.TTMLColor == "CHANGED" {
					t.Fatal("write through a build reached another build / the spec")
				}
			}
		}
		for k, it := range a.Items {
			for x, ln := range it.Lines {
				for y, li := range ln.Items {
					if li.InlineStyle != nil && li.InlineStyle.SRTColor != nil {
						spec := l.Items[k].Lines[x].Items[y].Attrs
						if spec.SRTColor == spec.TTMLColor && li.InlineStyle.SRTColor != li.InlineStyle.TTMLColor {
							t.Fatal("aliasing inside one attrs value lost")
						}
						if li.InlineStyle.SRTColor == b.Items[k].Lines[x].Items[y].InlineStyle.SRTColor {
							t.Fatal("SRTColor pointer shared between builds")
						}
					}
				}
			}
		}
	}
}
