// Package prng is the simulator's only source of randomness: a self-contained
// splitmix64-seeded xoshiro256** generator (stable across Go releases) with
// derivable sub-streams so that work item j draws the same values whatever
// the worker count or the order in which items are processed.
package prng

import (
	"hash/fnv"
	"math"
	"math/bits"
)

// R is a deterministic generator. The zero value is not usable; use New.
type R struct {
	s    [4]uint64
	seed uint64
}

func splitmix(x *uint64) uint64 {
	*x += 0x9e3779b97f4a7c15
	z := *x
	z = (z ^ (z >> 30)) * 0xbf58476d1ce4e5b9
	z = (z ^ (z >> 27)) * 0x94d049bb133111eb
	return z ^ (z >> 31)
}

// New returns a generator seeded from one integer.
func New(seed uint64) *R {
	r := &R{seed: seed}
	x := seed
	for i := range r.s {
		r.s[i] = splitmix(&x)
	}
	return r
}

// Seed returns the integer the generator was created from.
func (r *R) Seed() uint64 { return r.seed }

// Derive returns an independent generator for (label, idx) under this
// generator's seed. It does not advance r.
func (r *R) Derive(label string, idx int) *R {
	h := fnv.New64a()
	h.Write([]byte(label))
	var b [16]byte
	for i := 0; i < 8; i++ {
		b[i] = byte(uint64(idx) >> (8 * i))
		b[8+i] = byte(r.seed >> (8 * i))
	}
	h.Write(b[:])
	return New(h.Sum64())
}

// Uint64 returns the next 64 random bits.
func (r *R) Uint64() uint64 {
	s := &r.s
	res := bits.RotateLeft64(s[1]*5, 7) * 9
	t := s[1] << 17
	s[2] ^= s[0]
	s[3] ^= s[1]
	s[1] ^= s[2]
	s[0] ^= s[3]
	s[2] ^= t
	s[3] = bits.RotateLeft64(s[3], 45)
	return res
}

// Intn returns a value in [0,n). n<=0 yields 0.
func (r *R) Intn(n int) int {
	if n <= 1 {
		return 0
	}
	return int(r.Uint64() % uint64(n))
}

// Range returns a value in [lo,hi].
func (r *R) Range(lo, hi int) int {
	if hi <= lo {
		return lo
	}
	return lo + r.Intn(hi-lo+1)
}

// Float64 returns a value in [0,1).
func (r *R) Float64() float64 { return float64(r.Uint64()>>11) / (1 << 53) }

// Bool is true with probability p.
func (r *R) Bool(p float64) bool { return r.Float64() < p }

// Geometric returns a value >= 1 with the given mean (mean >= 1).
func (r *R) Geometric(mean float64) int {
	if mean <= 1 {
		return 1
	}
	u := r.Float64()
	if u <= 0 {
		u = 1e-18
	}
	n := 1 + int(math.Log(u)/math.Log(1-1/mean))
	if n < 1 {
		n = 1
	}
	return n
}

// Perm returns a permutation of 0..n-1.
func (r *R) Perm(n int) []int {
	p := make([]int, n)
	for i := range p {
		p[i] = i
	}
	for i := n - 1; i > 0; i-- {
		j := r.Intn(i + 1)
		p[i], p[j] = p[j], p[i]
	}
	return p
}

// Pick returns one of the strings.
func (r *R) Pick(xs ...string) string { return xs[r.Intn(len(xs))] }

// PickInt returns one of the ints.
func (r *R) PickInt(xs ...int) int { return xs[r.Intn(len(xs))] }
