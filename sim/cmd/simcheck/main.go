// simcheck is the harness binary. It is rebuilt by bin/check against the
// current working tree of the repository on every run.
//
//	simcheck -mode parent  -prop C17 -tier quick ...   orchestrate worker processes, minimise, report
//	simcheck -mode worker  -prop C17 -shard i -shards N -result f.json
//	simcheck -mode replay  -file replay.json
package main

import (
	"bytes"
	"context"
	"encoding/json"
	"flag"
	"fmt"
	"io"
	"os"
	"os/exec"
	"path/filepath"
	"runtime"
	"strconv"
	"strings"
	"sync"
	"time"

	"verif/sim/engine"
)

func main() {
	var (
		mode     = flag.String("mode", "parent", "parent | worker | replay | child")
		prop     = flag.String("prop", "", "property id")
		tier     = flag.String("tier", "quick", "quick | thorough")
		seed     = flag.Uint64("seed", 1, "VERIF_SEED")
		repo     = flag.String("repo", "/repo", "tree under test")
		shard    = flag.Int("shard", 0, "")
		shards   = flag.Int("shards", 1, "")
		result   = flag.String("result", "", "worker: where to write the shard result")
		evidence = flag.String("evidence", "", "parent: evidence file")
		replays  = flag.String("replays", "/verif/replays", "parent: directory for replay files")
		known    = flag.String("known", "/verif/known_findings.json", "known-findings file")
		file     = flag.String("file", "", "replay: file to replay")
		workers  = flag.Int("workers", runtime.NumCPU(), "parent: worker processes")
		inst     = flag.Bool("inst", false, "binary is built against the instrumented copy")
		race     = flag.Bool("race", false, "binary is built with -race")
		scratch  = flag.String("scratch", "", "scratch directory")
		sites    = flag.String("sites", "", "simgen site table")
		bins     = flag.String("bins", "", "directory holding the sibling harness binaries")
		child    = flag.String("child", "", "child: request file")
		wallFlag = flag.Float64("wall", 0, "report: wall-clock seconds of the workers")
	)
	flag.Parse()
	self, _ := os.Executable()
	cfg := engine.Config{Prop: *prop, Tier: *tier, Seed: *seed, Repo: *repo, Shard: *shard, Shards: *shards, Inst: *inst, Race: *race, Self: self, Scratch: *scratch, Sites: *sites, Bins: *bins}
	switch *mode {
	case "worker":
		os.Exit(worker(cfg, *result))
	case "replay":
		os.Exit(replay(cfg, *file, *known))
	case "child":
		os.Exit(engine.RunChild(cfg, *child))
	case "parent":
		os.Exit(parent(cfg, *workers, *evidence, *replays, *known))
	case "report":
		os.Exit(reportMode(cfg, *file, *wallFlag, *evidence, *replays, *known, *workers))
	}
	fmt.Fprintln(os.Stderr, "simcheck: unknown mode", *mode)
	os.Exit(2)
}

func runShard(cfg engine.Config) (*engine.ShardResult, error) {
	switch cfg.Prop {
	case "C17":
		return engine.RunC17(cfg)
	case "C18":
		return engine.RunC18(cfg)
	case "C19":
		return engine.RunC19(cfg)
	case "C20":
		return engine.RunC20(cfg)
	}
	return nil, fmt.Errorf("unknown property %q", cfg.Prop)
}

func worker(cfg engine.Config, out string) int {
	res, err := runShard(cfg)
	if err != nil {
		fmt.Fprintln(os.Stderr, "simcheck worker:", err)
		return 2
	}
	b, _ := json.Marshal(res)
	if err := os.WriteFile(out, b, 0o644); err != nil {
		fmt.Fprintln(os.Stderr, "simcheck worker:", err)
		return 2
	}
	return 0
}

func parent(cfg engine.Config, workers int, evidencePath, replayDir, knownPath string) int {
	start := time.Now()
	if workers < 1 {
		workers = 1
	}
	dir := cfg.Scratch
	if dir == "" {
		d, err := os.MkdirTemp("/var/tmp", "simcheck-")
		if err != nil {
			fmt.Fprintln(os.Stderr, err)
			return 2
		}
		defer os.RemoveAll(d)
		dir = d
	}
	total := engine.NewShardResult()
	var mu sync.Mutex
	var wg sync.WaitGroup
	failed := false
	for i := 0; i < workers; i++ {
		wg.Add(1)
		go func(i int) {
			defer wg.Done()
			out := filepath.Join(dir, fmt.Sprintf("shard-%s-%d.json", cfg.Prop, i))
			args := []string{"-mode", "worker", "-prop", cfg.Prop, "-tier", cfg.Tier, "-seed", strconv.FormatUint(cfg.Seed, 10), "-repo", cfg.Repo,
				"-shard", strconv.Itoa(i), "-shards", strconv.Itoa(workers), "-result", out, "-scratch", dir, "-sites", cfg.Sites, "-bins", cfg.Bins}
			if cfg.Inst {
				args = append(args, "-inst")
			}
			if cfg.Race {
				args = append(args, "-race")
			}
			// a worker that runs away (a workload item that never finishes) must not hang the check: generous
			// wall-clock limit, then machinery trouble (exit 2), never a verdict
			limit := 30 * time.Minute
			if cfg.Tier == "thorough" {
				limit = 4 * time.Hour
			}
			ctx, cancel := context.WithTimeout(context.Background(), limit)
			defer cancel()
			cmd := exec.CommandContext(ctx, cfg.Self, args...)
			var eb tailBuffer
			cmd.Stderr = io.MultiWriter(os.Stderr, &eb)
			cmd.Env = append(os.Environ(), "GOMAXPROCS=2")
			if err := cmd.Run(); err != nil {
				mu.Lock()
				defer mu.Unlock()
				// a worker brought down from a goroutine that the code under test started (no caller can recover a
				// panic there; the unchanged library starts none) is a finding; anything else is machinery trouble
				if first, ok := engine.CrashVerdict(eb.String()); ok && ctx.Err() == nil {
					sc, _ := json.Marshal(engine.WorkerCrash{Kind: "worker-crash", Prop: cfg.Prop, Tier: cfg.Tier, Seed: cfg.Seed, Shard: i, Shards: workers})
					r := engine.NewShardResult()
					r.Violations = append(r.Violations, engine.Violation{Property: cfg.Prop, Class: "process-crash",
						Signature: cfg.Prop + " process-crash in a goroutine started by the library",
						Detail:    "worker " + strconv.Itoa(i) + " of " + strconv.Itoa(workers) + " died: " + first + "\n" + eb.String(), Scenario: sc})
					total.Merge(r)
					return
				}
				failed = true
				fmt.Fprintf(os.Stderr, "simcheck: worker %d: %v\n", i, err)
				return
			}
			b, err := os.ReadFile(out)
			var r engine.ShardResult
			if err == nil {
				err = json.Unmarshal(b, &r)
			}
			os.Remove(out)
			mu.Lock()
			defer mu.Unlock()
			if err != nil {
				failed = true
				fmt.Fprintf(os.Stderr, "simcheck: worker %d result: %v\n", i, err)
				return
			}
			if r.Probes == nil {
				r.Probes = map[string]int64{}
			}
			total.Merge(&r)
		}(i)
	}
	wg.Wait()
	if failed {
		fmt.Fprintln(os.Stderr, "simcheck: machinery trouble (worker failed); no verdict")
		return 2
	}
	wall := time.Since(start).Seconds()
	if len(total.Violations) == 0 {
		return engine.Report(cfg, total, wall, evidencePath, replayDir, knownPath, workers)
	}
	// Reporting minimises, and minimising runs the tree under test on shrunken inputs: done in a process of its own,
	// so that a tree which brings the process down from a goroutine of its own cannot take the verdict with it.
	tf := filepath.Join(dir, "total-"+cfg.Prop+".json")
	b, _ := json.Marshal(total)
	if err := os.WriteFile(tf, b, 0o644); err == nil {
		args := []string{"-mode", "report", "-prop", cfg.Prop, "-tier", cfg.Tier, "-seed", strconv.FormatUint(cfg.Seed, 10), "-repo", cfg.Repo, "-scratch", dir, "-sites", cfg.Sites, "-bins", cfg.Bins,
			"-file", tf, "-evidence", evidencePath, "-replays", replayDir, "-known", knownPath, "-workers", strconv.Itoa(workers), "-wall", strconv.FormatFloat(wall, 'f', 3, 64)}
		if cfg.Inst {
			args = append(args, "-inst")
		}
		if cfg.Race {
			args = append(args, "-race")
		}
		cmd := exec.Command(cfg.Self, args...)
		var ob bytes.Buffer
		var eb tailBuffer
		cmd.Stdout, cmd.Stderr = &ob, io.MultiWriter(os.Stderr, &eb)
		err := cmd.Run()
		os.Remove(tf)
		code := 0
		if ee, ok := err.(*exec.ExitError); ok {
			code = ee.ExitCode()
		} else if err != nil {
			code = -1
		}
		if code == 0 || code == 1 {
			os.Stdout.Write(ob.Bytes())
			return code
		}
		fmt.Fprintf(os.Stderr, "simcheck: the minimising reporter died (exit %d); reporting the findings as the workers made them\n", code)
	}
	cfg.NoMinimise = true
	return engine.Report(cfg, total, wall, evidencePath, replayDir, knownPath, workers)
}

// reportMode is the body of the reporter process.
func reportMode(cfg engine.Config, file string, wall float64, evidencePath, replayDir, knownPath string, workers int) int {
	b, err := os.ReadFile(file)
	if err != nil {
		fmt.Fprintln(os.Stderr, err)
		return 2
	}
	total := engine.NewShardResult()
	if err := json.Unmarshal(b, total); err != nil {
		fmt.Fprintln(os.Stderr, err)
		return 2
	}
	return engine.Report(cfg, total, wall, evidencePath, replayDir, knownPath, workers)
}

func replay(cfg engine.Config, file, knownPath string) int {
	b, err := os.ReadFile(file)
	if err != nil {
		fmt.Fprintln(os.Stderr, err)
		return 2
	}
	var rf engine.ReplayFile
	if err := json.Unmarshal(b, &rf); err != nil {
		fmt.Fprintln(os.Stderr, err)
		return 2
	}
	cfg.Prop = rf.Property
	v, err := engine.ReplayScenario(cfg, rf)
	if err != nil {
		fmt.Fprintln(os.Stderr, "simcheck replay:", err)
		return 2
	}
	if v == nil {
		fmt.Printf("REPLAY property=%s result=no-violation expected=%q\n", rf.Property, rf.Violation.Signature)
		return 0
	}
	same := "same"
	if v.Signature != rf.Violation.Signature {
		same = "different"
	}
	fmt.Printf("REPLAY property=%s result=violation signature=%q (%s as recorded)\n%s\n", rf.Property, v.Signature, same, strings.TrimSpace(v.Detail))
	fmt.Printf("VIOLATION property=%s replay=%s\n", rf.Property, file)
	return 1
}

// tailBuffer keeps the first 16 KiB and the last 16 KiB of what is written to it.
type tailBuffer struct {
	mu         sync.Mutex
	head, tail []byte
}

func (b *tailBuffer) Write(p []byte) (int, error) {
	b.mu.Lock()
	defer b.mu.Unlock()
	if room := 16384 - len(b.head); room > 0 {
		if room > len(p) {
			room = len(p)
		}
		b.head = append(b.head, p[:room]...)
		p2 := p[room:]
		b.tail = append(b.tail, p2...)
	} else {
		b.tail = append(b.tail, p...)
	}
	if len(b.tail) > 16384 {
		b.tail = b.tail[len(b.tail)-16384:]
	}
	return len(p), nil
}

func (b *tailBuffer) String() string {
	b.mu.Lock()
	defer b.mu.Unlock()
	return string(b.head) + string(b.tail)
}
