package engine

import (
	"bufio"
	"bytes"
	"encoding/json"
	"fmt"
	"io"
	"os"
	"path/filepath"
	"sort"
	"strings"
	"syscall"
	"testing/iotest"
	"time"

	astisub "github.com/asticode/go-astisub"

	"verif/sim/api"
	"verif/sim/canon"
	"verif/sim/corpus"
	"verif/sim/prng"
	"verif/sim/simio"
)

// C17: the parse result is a function of the byte sequence alone.
// Oracle: outcome key (ok+canonical result | failed) under every delivery
// schedule equals the key under whole delivery, for the same medium.

// ReadScenario is one (document, reader configuration, delivery plan) case.
type ReadScenario struct {
	Doc    string         `json:"doc"`
	Reader string         `json:"reader"`
	Data   []byte         `json:"data"`
	Plan   simio.ReadPlan `json:"plan"`
	// MustRun > 0: the document holds one line made of MustRun 'L' bytes that is content of a cue; a nil error is
	// only acceptable with that text in the result (C18: an over-long line is reported, not dropped)
	MustRun int `json:"must_run,omitempty"`
}

// EvalRead runs one reader call under a plan.
func EvalRead(reader string, data []byte, plan simio.ReadPlan) (canon.Outcome, *simio.Reader) {
	sr := simio.NewReader(data, plan)
	sr.MaxEvents = 64*len(data) + 10000
	o := api.ReadOutcome(reader, sr.Wrap())
	if sr.Overrun {
		o = canon.Outcome{Class: "overrun", Err: "event budget exhausted"}
	}
	return o, sr
}

func mediaFor(format string) []string {
	switch format {
	case "ts":
		return []string{"plain", "seekable", "bufio"}
	case "ttml":
		return []string{"plain", "bytereader"} // encoding/xml reads an io.ByteReader directly, without its own buffering
	}
	return []string{"plain"}
}

type c17Limits struct {
	pairs           int // seeded pairs of split points per document (0: none)
	pairsExhaustive int // every pair of split points up to this document size
	exhaustive      int // exhaustive single split up to this document size
	sampled         int // sampled single splits beyond
	randomPlans     int
	genPerFmt       int
	mutants         int
	largeSizes      []int
}

func c17LimitsFor(tier string) c17Limits {
	if tier == "thorough" {
		return c17Limits{exhaustive: 12000, sampled: 1500, randomPlans: 100, genPerFmt: 160, mutants: 1200, largeSizes: []int{70000, 140000, 200000, 1300000}, pairs: 300, pairsExhaustive: 260}
	}
	if tier == "smoke" { // determinism self-test only
		return c17Limits{exhaustive: 1200, sampled: 40, randomPlans: 4, genPerFmt: 2, mutants: 12}
	}
	return c17Limits{exhaustive: 6000, sampled: 300, randomPlans: 10, genPerFmt: 8, mutants: 40, largeSizes: []int{70000, 300000}, pairs: 12}
}

// structureOffsets returns split offsets aligned to the format's structure.
func structureOffsets(format string, data []byte) []int {
	var offs []int
	add := func(k int) {
		for _, d := range []int{-1, 0, 1} {
			if k+d >= 0 && k+d <= len(data) {
				offs = append(offs, k+d)
			}
		}
	}
	switch format {
	case "stl":
		add(1024)
		for k := 1024; k <= len(data); k += 128 {
			add(k)
		}
	case "ts":
		for k := 0; k <= len(data); k += 188 {
			add(k)
		}
		for k := 0; k <= 200 && k <= len(data); k++ {
			offs = append(offs, k)
		}
	default:
		for i, c := range data {
			if c == '\r' || c == '\n' || c == '>' || c == '<' {
				add(i)
				add(i + 1)
			}
		}
		if bytes.HasPrefix(data, []byte("\xef\xbb\xbf")) {
			offs = append(offs, 1, 2, 3)
		}
	}
	for _, k := range []int{4095, 4096, 4097, 8191, 8192, 8193, 65535, 65536, 65537} {
		if k <= len(data) {
			offs = append(offs, k)
		}
	}
	sort.Ints(offs)
	out := offs[:0]
	for i, k := range offs {
		if i == 0 || k != offs[i-1] {
			out = append(out, k)
		}
	}
	return out
}

// plansFor enumerates the schedule space for one document.
func plansFor(d corpus.Doc, lim c17Limits, r *prng.R) []simio.ReadPlan {
	n := len(d.Data)
	var ps []simio.ReadPlan
	if strings.HasPrefix(d.Name, "finalline-") || strings.HasPrefix(d.Name, "longline-") {
		// threshold documents: what matters is where the end of the stream (or the 64 KiB mark) falls relative to a read
		ps = append(ps, simio.ReadPlan{Name: "whole+eof", EOFWithData: true}, simio.ReadPlan{Name: "one-byte", Rest: 1},
			simio.ReadPlan{Name: "one-byte+eof", Rest: 1, EOFWithData: true}, simio.ReadPlan{Name: "half", Half: true},
			simio.ReadPlan{Name: "half+eof", Half: true, EOFWithData: true})
		for _, m := range []int{4096, 4097, 65535, 65536, 65537} {
			ps = append(ps, simio.ReadPlan{Name: "mtu", Rest: m}, simio.ReadPlan{Name: "mtu+eof", Rest: m, EOFWithData: true})
		}
		for _, k := range []int{n - 2, n - 1, n, 65535, 65536, 65537, n - 65536, n - 65537} {
			if k >= 0 && k <= n {
				ps = append(ps, simio.ReadPlan{Name: "split-aligned", Chunks: []int{k}}, simio.ReadPlan{Name: "split-aligned+eof", Chunks: []int{k}, EOFWithData: true})
			}
		}
		for i := 0; i < lim.sampled/10; i++ {
			ps = append(ps, simio.ReadPlan{Name: "split-sampled", Chunks: []int{r.Intn(n + 1)}, EOFWithData: r.Bool(0.5)})
		}
		return ps
	}
	// 1. single split points
	if n <= lim.exhaustive {
		for k := 0; k <= n; k++ {
			ps = append(ps, simio.ReadPlan{Name: "split", Chunks: []int{k}})
		}
	} else {
		// large document: every buffer boundary (bufio fills 4096 bytes at a time and doubles up to 65536) +-1,
		// a seeded sample of the structure-aligned offsets and a seeded sample of arbitrary offsets
		for k := 4096; k <= n; k += 4096 {
			for _, dlt := range []int{-1, 0, 1} {
				if k+dlt <= n {
					ps = append(ps, simio.ReadPlan{Name: "split-aligned", Chunks: []int{k + dlt}})
				}
			}
		}
		so := structureOffsets(d.Format, d.Data)
		for i := 0; i < lim.sampled && len(so) > 0; i++ {
			ps = append(ps, simio.ReadPlan{Name: "split-aligned", Chunks: []int{so[r.Intn(len(so))]}})
		}
		for i := 0; i < lim.sampled; i++ {
			ps = append(ps, simio.ReadPlan{Name: "split-sampled", Chunks: []int{r.Intn(n + 1)}})
		}
	}
	if n > 250000 || d.Name == "ts-verylong" { // very large document: boundary and sampled splits above, a few granularities, nothing else
		ps = append(ps, simio.ReadPlan{Name: "half", Half: true}, simio.ReadPlan{Name: "mtu", Rest: 4096}, simio.ReadPlan{Name: "mtu", Rest: 4097},
			simio.ReadPlan{Name: "mtu", Rest: 1023}, simio.ReadPlan{Name: "mtu", Rest: 65536}, simio.ReadPlan{Name: "whole+eof", EOFWithData: true})
		if n < 400000 {
			ps = append(ps, simio.ReadPlan{Name: "one-byte", Rest: 1})
		}
		return ps
	}
	// 1b. split, then one lone byte, then the rest (a CR | LF | rest pattern)
	offs := structureOffsets(d.Format, d.Data)
	if len(offs) > 400 {
		sel := make([]int, 0, 400)
		for i := 0; i < 400; i++ {
			sel = append(sel, offs[r.Intn(len(offs))])
		}
		offs = sel
	}
	for _, k := range offs {
		ps = append(ps, simio.ReadPlan{Name: "split-1-rest", Chunks: []int{k, 1}})
	}
	// 1c. two split points (three deliveries): exhaustive for tiny documents, seeded pairs otherwise
	if lim.pairs > 0 {
		if n <= lim.pairsExhaustive {
			for k1 := 1; k1 < n; k1++ {
				for k2 := k1 + 1; k2 <= n; k2++ {
					ps = append(ps, simio.ReadPlan{Name: "split2", Chunks: []int{k1, k2 - k1}})
				}
			}
		} else {
			for i := 0; i < lim.pairs; i++ {
				k1 := r.Intn(n + 1)
				ps = append(ps, simio.ReadPlan{Name: "split2", Chunks: []int{k1, r.Range(1, 1+(n-k1))}})
			}
		}
	}
	// 2. uniform granularities
	ps = append(ps, simio.ReadPlan{Name: "one-byte", Rest: 1}, simio.ReadPlan{Name: "half", Half: true})
	for _, m := range []int{2, 3, 7, 127, 128, 129, 187, 188, 189, 1023, 1024, 1025, 4095, 4096, 4097} {
		ps = append(ps, simio.ReadPlan{Name: "mtu", Rest: m})
	}
	// 3./4. random chunk sequences, with and without zero-length reads
	for i := 0; i < lim.randomPlans; i++ {
		mean := float64(r.PickInt(1, 2, 5, 16, 64, 200, 1000, 4096, 8192))
		zero := r.Bool(0.5)
		var chunks []int
		sum, zrun := 0, 0
		for sum < n && len(chunks) < 4*n+16 {
			if zero && zrun < 3 && r.Bool(0.2) {
				chunks = append(chunks, 0)
				zrun++
				continue
			}
			zrun = 0
			c := r.Geometric(mean)
			chunks = append(chunks, c)
			sum += c
		}
		if zero && r.Bool(0.5) {
			chunks = append(chunks, 0, 0) // zero-length reads right before EOF
		}
		ps = append(ps, simio.ReadPlan{Name: "random", Chunks: chunks, Rest: r.PickInt(0, 1, 13)})
	}
	// 5. the same families with the last bytes delivered together with EOF
	base := len(ps)
	ps = append(ps, simio.ReadPlan{Name: "whole+eof", EOFWithData: true})
	for i := 0; i < base; i++ {
		p := ps[i]
		take := p.Name == "one-byte" || p.Name == "half" || p.Name == "mtu" || p.Name == "random"
		if p.Name == "split" || p.Name == "split-aligned" || p.Name == "split-sampled" {
			// near the end of the document every split matters; elsewhere sample
			take = len(p.Chunks) == 1 && (n-p.Chunks[0] <= 300 || r.Bool(0.05))
		}
		if take {
			p.EOFWithData = true
			p.Name += "+eof"
			ps = append(ps, p)
		}
	}
	// a zero-length read before every delivery, all the way through (never two in a row): cumulative counters
	if n <= 60000 {
		for _, m := range []int{188, 61, 1000} {
			if n/m > 20000 {
				continue
			}
			var chunks []int
			for sum := 0; sum < n; sum += m {
				chunks = append(chunks, 0, m)
			}
			ps = append(ps, simio.ReadPlan{Name: "zero-alternating", Chunks: chunks, Rest: m})
		}
	}
	// one zero-length read after the last byte and before EOF, under whole / block-sized / small deliveries
	for _, m := range []int{n, 128, 188, 7} {
		if m <= 0 || n/m > 20000 {
			continue
		}
		var chunks []int
		for sum := 0; sum < n; sum += m {
			chunks = append(chunks, m)
		}
		ps = append(ps, simio.ReadPlan{Name: "zero-before-eof", Chunks: append(chunks, 0)})
	}
	// zero-length reads at fixed places
	ps = append(ps,
		simio.ReadPlan{Name: "zero-first", Chunks: []int{0, 0, 0}},
		simio.ReadPlan{Name: "zero-then-bytes", Chunks: []int{0, 1, 0, 1, 0, 0, 1}, Rest: 2},
	)
	return ps
}

func planKey(p simio.ReadPlan) string {
	p.Name = ""
	b, _ := json.Marshal(p)
	return string(b)
}

// c17Docs assembles the document set for a tier.
func c17Docs(cfg Config, lim c17Limits) ([]corpus.Doc, error) {
	root := prng.New(cfg.Seed)
	docs, err := corpus.LoadTestdata(cfg.Repo)
	if err != nil {
		return nil, err
	}
	gen := corpus.Generated(root, lim.genPerFmt)
	docs = append(docs, gen...)
	// invalid documents by seeded mutation: only their outcome class must be schedule independent
	mr := root.Derive("mutants", 0)
	src := append([]corpus.Doc(nil), docs...)
	for i := 0; i < lim.mutants; i++ {
		d := src[mr.Intn(len(src))]
		if len(d.Data) > 16000 {
			continue
		}
		docs = append(docs, corpus.Mutate(mr, d, i))
	}
	// concatenated documents and documents followed by trailing junk (usually invalid): whatever the reader makes
	// of them must not depend on where a read boundary falls relative to the end of the first document
	cr := root.Derive("concat", 0)
	for _, f := range corpus.Formats {
		var same []corpus.Doc
		for _, d := range gen {
			if d.Format == f && len(d.Data) < 5000 {
				same = append(same, d)
			}
		}
		npairs := 4
		if lim.genPerFmt < 20 {
			npairs = 2 // quick tier: one pair per format
		}
		for i := 0; i+1 < len(same) && i < npairs; i += 2 {
			a, b := same[i], same[i+1]
			docs = append(docs,
				corpus.Doc{Name: a.Name + "+" + b.Name, Format: f, Data: append(append([]byte(nil), a.Data...), b.Data...), Cues: -1, Gen: true},
				corpus.Doc{Name: a.Name + "+ws+" + b.Name, Format: f, Data: append(append(append([]byte(nil), a.Data...), " \n\n\t"...), b.Data...), Cues: -1, Gen: true},
				corpus.Doc{Name: a.Name + "+junk", Format: f, Data: append(append([]byte(nil), a.Data...), []byte(cr.Pick("\n\ntrailing junk\n", "x", "\x00\x00\x00", " <tt></tt>", "\r\n\r\n9\r\n"))...), Cues: -1, Gen: true})
		}
	}
	// documents of exactly 4096 / 8192 / 65536 bytes (padded with blank lines): the last byte coincides with a buffer boundary
	for _, f := range []string{"srt", "vtt", "ssa", "ttml"} {
		for _, d := range gen {
			if d.Format != f || len(d.Data) > 3000 {
				continue
			}
			for _, size := range []int{4096, 8192, 65536} {
				b := append([]byte(nil), d.Data...)
				for len(b) < size {
					b = append(b, '\n')
				}
				docs = append(docs, corpus.Doc{Name: fmt.Sprintf("exact%d-%s", size, d.Name), Format: f, Data: b, Cues: -1, Gen: true})
			}
			break
		}
	}
	// WebVTT documents whose signature line is not the first line (the reader skips up to it), below and above 1 KiB / 4 KiB
	{
		base, _ := corpus.LongLineBase("vtt")
		for _, lead := range []string{"\n", "junk before the header\n\n", "\xef\xbb\xbf\n", strings.Repeat("x", 1100) + "\n"} {
			for _, pad := range []int{0, 2500, 6000} {
				b := append([]byte(lead), base...)
				for i := 0; i < pad; i += 50 {
					b = append(b, []byte("\nNOTE "+strings.Repeat("p", 42))...)
				}
				docs = append(docs, corpus.Doc{Name: fmt.Sprintf("vtt-lead%d-pad%d", len(lead), pad), Format: "vtt", Data: b, Cues: -1, Gen: true})
			}
		}
	}
	// long runs of one unusual byte (NUL, VT, space, CR, LF) in the middle of a document: filters and skippers that
	// legitimately return "nothing yet" are sensitive to how many reads fall inside the run
	for _, f := range []string{"srt", "vtt", "ssa", "ttml", "stl"} {
		for _, d := range gen {
			if d.Format != f || len(d.Data) > 3000 {
				continue
			}
			for _, fill := range []byte{0x00, 0x0b, ' ', '\r', '\n'} {
				docs = append(docs, corpus.WithRun(d, fill, 150))
			}
			break
		}
	}
	// a TTML document with hundreds of cues, a transport stream of more than two 64 KiB blocks
	docs = append(docs, corpus.LargeTTML(root.Derive("large-ttml", 0), 320))
	docs = append(docs, corpus.Large("stl", root.Derive("large-stl", 0), 80000)) // > 600 blocks, > 64 KiB
	docs = append(docs, corpus.Doc{Name: "ts-verylong", Format: "ts", Data: corpus.FixedTS(4, "very#long", 700), Cues: -1, Gen: true})
	// a transport stream long enough for cumulative effects (hundreds of packets)
	docs = append(docs, corpus.Doc{Name: "ts-long", Format: "ts", Data: corpus.FixedTS(1, "long#stream", 60), Cues: -1, Gen: true})
	// documents with one line longer than the line scanner can buffer: how such a document is treated must not
	// depend on the delivery or on the reader type either
	for _, f := range []string{"srt", "vtt", "ssa"} {
		for _, L := range []int{65535, 65536, 1 << 17} {
			docs = append(docs, corpus.LongLine(f, 3, 1, "text", L))
		}
	}
	// the same at the very end of the document: a final line of exactly the scanner's limit (+-1), without
	// terminator or ending in a lone CR - whether EOF arrives with the last bytes or alone must not matter
	for _, f := range []string{"srt", "vtt", "ssa"} {
		base, _ := corpus.LongLineBase(f)
		for _, L := range []int{65535, 65536, 65537} {
			for _, end := range []string{"", "\r"} {
				docs = append(docs, corpus.Doc{Name: fmt.Sprintf("finalline-%s-len%d-end%q", f, L, end), Format: f,
					Data: append(append(append([]byte(nil), base...), bytes.Repeat([]byte("L"), L)...), end...), Cues: -1, Gen: true})
			}
		}
	}
	for _, sz := range lim.largeSizes {
		for _, f := range []string{"srt", "vtt", "ssa"} {
			docs = append(docs, corpus.Large(f, root.Derive("large-"+f, sz), sz))
		}
	}
	return docs, nil
}

// RunC17 is the worker body.
func RunC17(cfg Config) (*ShardResult, error) {
	lim := c17LimitsFor(cfg.Tier)
	docs, err := c17Docs(cfg, lim)
	if err != nil {
		return nil, err
	}
	res := NewShardResult()
	res.Docs = int64(len(docs))
	seen := keySet{}
	root := prng.New(cfg.Seed)
	for di, d := range docs {
		dh := canon.HashBytes(d.Data)
		plans := plansFor(d, lim, root.Derive("plans-"+d.Name, di))
		if key := Key64(dh, "open-kinds"); cfg.Mine(key) && !strings.Contains(d.Name, "~mut") {
			res.Violations = append(res.Violations, c17OpenKinds(cfg, d, res)...)
		}
		for ri, reader := range corpus.ReaderConfigs(d.Format) {
			// real reader types (optional interfaces: Seeker, ByteReader, WriterTo, ReaderAt, *os.File) against
			// the simulated source delivering everything at once: the result is a function of the bytes alone
			if key := Key64(dh, reader, "real-readers"); cfg.Mine(key) {
				for _, v := range c17RealReaders(cfg, reader, d, res) {
					res.Violations = append(res.Violations, v)
				}
			}
			// with the PID given, the demuxer needs no rewind: whether the source can seek, or is a *bufio.Reader, must
			// not matter either (with PID auto-detection it legitimately does: a non-seekable source cannot be rewound)
			if (reader == "ts" || reader == "ts-pid") && crossMediumApplies(d.Name, d.Data) && cfg.Mine(Key64(dh, reader, "cross-medium")) {
				base, _ := EvalRead(reader, d.Data, simio.ReadPlan{Medium: "seekable"})
				for _, medium := range []string{"plain", "bufio"} {
					o, _ := EvalRead(reader, d.Data, simio.ReadPlan{Medium: medium})
					res.Evaluations++
					res.Probes["cross_medium_pid_given"]++
					if o.Key() != base.Key() {
						sc, _ := json.Marshal(ReadScenario{Doc: d.Name, Reader: reader, Data: d.Data, Plan: simio.ReadPlan{Name: "cross-medium", Medium: medium}})
						res.Violations = append(res.Violations, Violation{Property: "C17", Class: "result-differs",
							Signature: fmt.Sprintf("C17 %s cross-medium seekable=%s %s=%s", reader, base.Class, medium, o.Class),
							Detail:    fmt.Sprintf("doc=%s (%d bytes), PID given: a seekable source delivering everything at once -> %s items=%d; a %s source delivering the same bytes at once -> %s items=%d err=%q", d.Name, len(d.Data), base.Class, base.Items, medium, o.Class, o.Items, trunc(o.Err, 160)),
							Scenario:  sc})
					}
				}
			}
			for _, medium := range mediaFor(d.Format) {
				var ref *canon.Outcome
				for pi, p := range plans {
					p.Medium = medium
					// quick tier: the secondary configurations of a format (callbacks, PID-only, page-only) take every third single split
					if cfg.Tier != "thorough" && ri >= 2 && (p.Name == "split" && pi%3 != 0 || medium == "bufio") {
						continue
					}
					key := Key64(dh, reader, planKey(p))
					if !cfg.Mine(key) {
						continue
					}
					if ref == nil {
						o, _ := EvalRead(reader, d.Data, simio.ReadPlan{Medium: medium})
						ref = &o
					}
					o, sr := EvalRead(reader, d.Data, p)
					res.Evaluations++
					res.Extra["cases:"+docCategory(d)]++
					res.SimEvents += int64(sr.St.Reads + sr.St.Seeks)
					res.Note(dh, reader, planKey(p), o.Key(), fmt.Sprint(sr.St.Reads, sr.St.Seeks))
					dataReads := sr.St.Reads - sr.St.ZeroReads
					if (dataReads >= 3 || sr.St.ZeroReads > 0 || sr.St.EOFWithData > 0) && seen.add(key) {
						res.Distinct++
					}
					c17Probes(res, d, p, sr)
					if len(res.Samples) < 3 && p.Name != "split" && cfg.Shard == 0 {
						res.Samples = append(res.Samples, map[string]interface{}{"doc": d.Name, "bytes": len(d.Data), "reader": reader, "plan": samplePlan(p), "outcome": o.Class, "items": o.Items, "reads": sr.St.Reads})
					}
					if o.Key() != ref.Key() {
						sc, _ := json.Marshal(ReadScenario{Doc: d.Name, Reader: reader, Data: d.Data, Plan: p})
						res.Violations = append(res.Violations, Violation{
							Property:  "C17",
							Class:     "result-differs",
							Signature: fmt.Sprintf("C17 %s medium=%s whole=%s scheduled=%s", reader, medium, ref.Class, o.Class),
							Detail:    fmt.Sprintf("doc=%s (%d bytes) plan=%s: whole delivery -> %s items=%d err=%q; this schedule -> %s items=%d err=%q", d.Name, len(d.Data), trunc(planKey(p), 200), ref.Class, ref.Items, trunc(ref.Err, 160), o.Class, o.Items, trunc(o.Err, 160)),
							Scenario:  sc,
						})
						if len(res.Violations) > 40 {
							res.Notes = append(res.Notes, "stopped after 40 violations in this shard")
							return res, nil
						}
					}
				}
			}
		}
	}
	return res, nil
}

// c17OpenKinds goes through the file helper astisub.Open (real OS, not simulated; kernel pipe timing is not under
// the simulator's control, so this is a cross-check, not a searched space): the same bytes stored in a regular
// file and served through a named pipe (one write, and 7-byte writes) must parse to the same result.
func c17OpenKinds(cfg Config, d corpus.Doc, res *ShardResult) (vs []Violation) {
	// no .ts: an *os.File on a pipe offers Seek and fails it, so the demuxer's rewind fails there; seekability
	// is part of the configuration that is held fixed (the failing-Seek configuration is C18's SeekFail case)
	ext := map[string]string{"srt": ".srt", "vtt": ".vtt", "ssa": ".ssa", "stl": ".stl", "ttml": ".ttml"}[d.Format]
	if ext == "" || len(d.Data) > 60000 {
		return nil
	}
	dir, err := os.MkdirTemp(cfg.Scratch, "c17open-")
	if err != nil {
		return nil
	}
	defer os.RemoveAll(dir)
	open := func(path string) (canon.Outcome, bool) {
		type r struct{ o canon.Outcome }
		ch := make(chan r, 1)
		go func() {
			var o canon.Outcome
			func() {
				defer func() {
					if p := recover(); p != nil {
						o = canon.Outcome{Class: "panic", Err: fmt.Sprint(p)}
					}
				}()
				s, err := astisub.Open(astisub.Options{Filename: path})
				if err != nil {
					o = canon.Outcome{Class: "error", Err: err.Error()}
					return
				}
				o = canon.Outcome{Class: "ok", Canon: canon.Bytes(s), Items: len(s.Items)}
			}()
			ch <- r{o}
		}()
		select {
		case x := <-ch:
			return x.o, true
		case <-time.After(20 * time.Second):
			return canon.Outcome{}, false
		}
	}
	reg := filepath.Join(dir, "regular"+ext)
	if err := os.WriteFile(reg, d.Data, 0o644); err != nil {
		return nil
	}
	ref, ok := open(reg)
	if !ok {
		res.Notes = append(res.Notes, "open-kinds: Open of a regular file did not return within 20 s: "+d.Name)
		return nil
	}
	for _, chunk := range []int{0, 7} {
		fifo := filepath.Join(dir, fmt.Sprintf("pipe%d%s", chunk, ext))
		if err := syscall.Mkfifo(fifo, 0o644); err != nil {
			res.Notes = append(res.Notes, "open-kinds skipped: mkfifo: "+err.Error())
			return vs
		}
		go func() { // the other end of the pipe
			f, err := os.OpenFile(fifo, os.O_WRONLY, 0)
			if err != nil {
				return
			}
			defer f.Close()
			b := d.Data
			for len(b) > 0 {
				n := len(b)
				if chunk > 0 && n > chunk {
					n = chunk
				}
				if _, err := f.Write(b[:n]); err != nil {
					return
				}
				b = b[n:]
			}
		}()
		o, ok := open(fifo)
		if !ok {
			res.Notes = append(res.Notes, "open-kinds: Open of a named pipe did not return within 20 s: "+d.Name)
			// unblock a writer that is still waiting for a reader
			if f, err := os.OpenFile(fifo, os.O_RDONLY|syscall.O_NONBLOCK, 0); err == nil {
				f.Close()
			}
			continue
		}
		res.Evaluations++
		res.Probes["open_named_pipe_real_os"]++
		if o.Key() != ref.Key() {
			sc, _ := json.Marshal(ReadScenario{Doc: d.Name, Reader: d.Format, Data: d.Data, Plan: simio.ReadPlan{Name: "open-kinds"}})
			vs = append(vs, Violation{Property: "C17", Class: "result-differs",
				Signature: fmt.Sprintf("C17 Open(%s) named-pipe regular=%s pipe=%s", ext, ref.Class, o.Class),
				Detail:    fmt.Sprintf("doc=%s (%d bytes): astisub.Open of a regular file -> %s items=%d; of a named pipe serving the same bytes (writes of %d bytes, 0 = one write) -> %s items=%d err=%q", d.Name, len(d.Data), ref.Class, ref.Items, chunk, o.Class, o.Items, trunc(o.Err, 160)),
				Scenario:  sc})
			break
		}
	}
	return vs
}

// c17RealReaders runs the reader on standard-library reader types holding the same bytes.
func c17RealReaders(cfg Config, reader string, d corpus.Doc, res *ShardResult) (vs []Violation) {
	seekRef, _ := EvalRead(reader, d.Data, simio.ReadPlan{Medium: "seekable"})
	plainRef, _ := EvalRead(reader, d.Data, simio.ReadPlan{Medium: "plain"})
	bufRef, _ := EvalRead(reader, d.Data, simio.ReadPlan{Medium: "bufio"})
	type rr struct {
		name string
		r    io.Reader
		ref  canon.Outcome
		env  [][2]string // process environment during the call (restored afterwards)
	}
	rs := []rr{
		{"bytes.Reader", bytes.NewReader(d.Data), seekRef, nil},
		{"strings.Reader", strings.NewReader(string(d.Data)), seekRef, nil},
		{"bytes.Buffer", bytes.NewBuffer(append([]byte(nil), d.Data...)), plainRef, nil},
		{"bufio.Reader(bytes.Reader)", bufio.NewReader(bytes.NewReader(d.Data)), bufRef, nil},
		{"iotest.OneByteReader", iotest.OneByteReader(bytes.NewReader(d.Data)), plainRef, nil},
		{"iotest.DataErrReader", iotest.DataErrReader(bytes.NewReader(d.Data)), plainRef, nil},
		{"io.LimitReader", io.LimitReader(bytes.NewReader(d.Data), int64(len(d.Data))), plainRef, nil},
	}
	if f, err := os.CreateTemp(cfg.Scratch, "c17-*.bin"); err == nil {
		defer os.Remove(f.Name())
		defer f.Close()
		if _, err := f.Write(d.Data); err == nil {
			if _, err := f.Seek(0, io.SeekStart); err == nil {
				rs = append(rs, rr{"os.File", f, seekRef, nil})
			}
		}
	}
	if !strings.HasPrefix(reader, "ts") {
		// a source that can seek but was handed over in the middle of its underlying data (a container whose header
		// the caller has consumed, one of several documents in a file): the document is what the reader delivers
		// from its current position on. Not for teletext: the demuxer rewinds a seekable source to its absolute
		// start by design, which makes the position part of the medium there.
		prefix := bytes.Repeat([]byte("junk before the document\n"), 80)
		whole := append(append(append([]byte(nil), prefix...), d.Data...), "junk behind the section"...)
		br := bytes.NewReader(whole[:len(prefix)+len(d.Data)])
		if _, err := br.Seek(int64(len(prefix)), io.SeekStart); err == nil {
			rs = append(rs, rr{"bytes.Reader handed over at offset 2000", br, seekRef, nil})
		}
		rs = append(rs, rr{"io.SectionReader", io.NewSectionReader(bytes.NewReader(whole), int64(len(prefix)), int64(len(d.Data))), seekRef, nil})
		if f, err := os.CreateTemp(cfg.Scratch, "c17-*.bin"); err == nil {
			defer os.Remove(f.Name())
			defer f.Close()
			if _, err := f.Write(whole[:len(prefix)+len(d.Data)]); err == nil {
				if _, err := f.Seek(int64(len(prefix)), io.SeekStart); err == nil {
					rs = append(rs, rr{"os.File handed over at offset 2000", f, seekRef, nil})
				}
			}
		}
	}
	// the bytes alone: not the process environment either. A plain source while the temporary directory, the home
	// directory and the time zone are unusable (a container with a read-only or missing /tmp is not unusual)
	rs = append(rs, rr{"plain reader in a hostile environment (TMPDIR and HOME missing)", iotest.OneByteReader(bytes.NewReader(d.Data)), plainRef,
		[][2]string{{"TMPDIR", "/nonexistent-verif/tmp"}, {"HOME", "/nonexistent-verif/home"}, {"TZ", "Nowhere/Invalid"}, {"LANG", "xx_XX"}}})
	for _, x := range rs {
		var restore []func()
		for _, kv := range x.env {
			old, had := os.LookupEnv(kv[0])
			k := kv[0]
			os.Setenv(k, kv[1])
			if had {
				restore = append(restore, func() { os.Setenv(k, old) })
			} else {
				restore = append(restore, func() { os.Unsetenv(k) })
			}
		}
		o := api.ReadOutcome(reader, x.r)
		for _, f := range restore {
			f()
		}
		res.Evaluations++
		res.Probes["real_reader_types"]++
		res.Note(canon.HashBytes(d.Data), reader, x.name, o.Key())
		if o.Key() != x.ref.Key() {
			sc, _ := json.Marshal(ReadScenario{Doc: d.Name, Reader: reader, Data: d.Data, Plan: simio.ReadPlan{Name: "real:" + x.name}})
			vs = append(vs, Violation{Property: "C17", Class: "result-differs",
				Signature: fmt.Sprintf("C17 %s real-reader=%s simulated=%s real=%s", reader, x.name, x.ref.Class, o.Class),
				Detail:    fmt.Sprintf("doc=%s (%d bytes): the simulated source delivering everything at once -> %s items=%d; %s over the same bytes -> %s items=%d err=%q", d.Name, len(d.Data), x.ref.Class, x.ref.Items, x.name, o.Class, o.Items, trunc(o.Err, 160)),
				Scenario:  sc})
		}
	}
	return vs
}

// crossMediumApplies: the kind of source may legitimately matter when the stream does not start with its two table
// packets (a non-seekable source is synchronised by discarding the first two packets, which the demuxer has used
// to probe the packet size) or is shorter than that; the cross-medium comparison is made only where it must hold.
func crossMediumApplies(name string, ts []byte) bool {
	// only streams exactly as the muxer produced them: a mutated or spliced stream may carry its damage in the two
	// table packets, which a seekable source parses and a non-seekable one discards unparsed
	if strings.Contains(name, "~mut") || strings.Contains(name, "+") || !(strings.HasPrefix(name, "gen-ts") || strings.HasPrefix(name, "ts-")) {
		return false
	}
	if len(ts) < 3*188 || len(ts)%188 != 0 {
		return false
	}
	pid := func(i int) int { return (int(ts[i*188+1])&0x1f)<<8 | int(ts[i*188+2]) }
	return ts[0] == 0x47 && ts[188] == 0x47 && pid(0) == 0 && pid(1) == 0x1000
}

// docCategory names the part of the corpus a document belongs to (evidence breakdown).
func docCategory(d corpus.Doc) string {
	switch {
	case strings.Contains(d.Name, "~mut"):
		return "mutated-" + d.Format
	case strings.HasPrefix(d.Name, "testdata/"):
		return "testdata-" + d.Format
	case strings.Contains(d.Name, "+"):
		return "concatenated-" + d.Format
	case strings.HasPrefix(d.Name, "gen-"):
		return "generated-" + d.Format
	}
	if i := strings.Index(d.Name, "-"); i > 0 {
		return d.Name[:i] + "-" + d.Format
	}
	return d.Format
}

func samplePlan(p simio.ReadPlan) simio.ReadPlan {
	if len(p.Chunks) > 24 {
		p.Chunks = append(append([]int(nil), p.Chunks[:24]...), -1)
	}
	return p
}

// c17Probes counts "this rare condition was hit" events from the actual run.
func c17Probes(res *ShardResult, d corpus.Doc, p simio.ReadPlan, sr *simio.Reader) {
	if sr.St.ZeroReads > 0 {
		res.Probes["zero_length_read"]++
	}
	if sr.St.EOFWithData > 0 {
		res.Probes["data_with_eof"]++
	}
	if sr.St.Seeks > 0 {
		res.Probes["rewind_under_chunking"]++
	}
	if len(p.Chunks) >= 1 && p.Chunks[0] > 0 && p.Chunks[0] < len(d.Data) {
		k := p.Chunks[0]
		switch d.Format {
		case "stl":
			if k%128 != 0 {
				res.Probes["stl_block_split"]++
			}
		case "ts":
			if k < 193 {
				res.Probes["ts_probe_window_split"]++
			} else if k%188 != 0 {
				res.Probes["ts_packet_split"]++
			}
		default:
			if d.Data[k-1] == '\r' && d.Data[k] == '\n' {
				res.Probes["cr_lf_split"]++
			}
			if k < 3 && bytes.HasPrefix(d.Data, []byte("\xef\xbb\xbf")) {
				res.Probes["bom_split"]++
			}
		}
	}
	if len(d.Data) > 4096 && (d.Format == "srt" || d.Format == "vtt" || d.Format == "ssa") {
		res.Probes["scanner_buffer_refill"]++
	}
}

// CheckReadScenario re-evaluates one scenario (replay, minimisation).
// It returns a violation or nil.
func CheckReadScenario(sc ReadScenario) *Violation {
	if sc.Plan.Name == "cross-medium" {
		if !crossMediumApplies(sc.Doc, sc.Data) {
			return nil
		}
		base, _ := EvalRead(sc.Reader, sc.Data, simio.ReadPlan{Medium: "seekable"})
		o, _ := EvalRead(sc.Reader, sc.Data, simio.ReadPlan{Medium: sc.Plan.Medium})
		if o.Key() == base.Key() {
			return nil
		}
		b, _ := json.Marshal(sc)
		return &Violation{Property: "C17", Class: "result-differs",
			Signature: fmt.Sprintf("C17 %s cross-medium seekable=%s %s=%s", sc.Reader, base.Class, sc.Plan.Medium, o.Class),
			Detail:    fmt.Sprintf("doc=%s (%d bytes), PID given: seekable -> %s items=%d; %s -> %s items=%d err=%q", sc.Doc, len(sc.Data), base.Class, base.Items, sc.Plan.Medium, o.Class, o.Items, trunc(o.Err, 160)),
			Scenario:  b}
	}
	if sc.Plan.Name == "open-kinds" {
		res := NewShardResult()
		if vs := c17OpenKinds(Config{Scratch: os.TempDir()}, corpus.Doc{Name: sc.Doc, Format: sc.Reader, Data: sc.Data}, res); len(vs) > 0 {
			return &vs[0]
		}
		return nil
	}
	if strings.HasPrefix(sc.Plan.Name, "real:") {
		res := NewShardResult()
		for _, v := range c17RealReaders(Config{Scratch: os.TempDir()}, sc.Reader, corpus.Doc{Name: sc.Doc, Data: sc.Data}, res) {
			if strings.Contains(v.Signature, "real-reader="+strings.TrimPrefix(sc.Plan.Name, "real:")+" ") {
				return &v
			}
		}
		return nil
	}
	ref, _ := EvalRead(sc.Reader, sc.Data, simio.ReadPlan{Medium: sc.Plan.Medium})
	o, _ := EvalRead(sc.Reader, sc.Data, sc.Plan)
	if o.Key() == ref.Key() {
		return nil
	}
	b, _ := json.Marshal(sc)
	medium := sc.Plan.Medium
	if medium == "" {
		medium = "plain"
	}
	return &Violation{
		Property:  "C17",
		Class:     "result-differs",
		Signature: fmt.Sprintf("C17 %s medium=%s whole=%s scheduled=%s", sc.Reader, medium, ref.Class, o.Class),
		Detail:    fmt.Sprintf("doc=%s (%d bytes) plan=%s: whole delivery -> %s items=%d err=%q; this schedule -> %s items=%d err=%q", sc.Doc, len(sc.Data), trunc(planKey(sc.Plan), 200), ref.Class, ref.Items, trunc(ref.Err, 160), o.Class, o.Items, trunc(o.Err, 160)),
		Scenario:  b,
	}
}

// MinimiseRead shrinks a failing read scenario while check keeps reporting a
// violation of the same class: simpler plans first, then a ddmin over the
// document bytes.
func MinimiseRead(sc ReadScenario, check func(ReadScenario) *Violation, budget Deadline) ReadScenario {
	if sc.Plan.Name == "cross-medium" || sc.Plan.Name == "open-kinds" {
		return sc // these comparisons are defined on whole, well-formed documents only
	}
	class := func(s ReadScenario) bool { v := check(s); return v != nil }
	if !class(sc) {
		return sc
	}
	simplify := func() {
		cands := []simio.ReadPlan{}
		base := sc.Plan
		base.Chunks, base.Rest, base.Half, base.Name = nil, 0, false, "min"
		p := base
		p.EOFWithData = false
		if sc.Plan.EOFWithData && sc.Plan.Fault == nil {
			cands = append(cands, func() simio.ReadPlan { q := sc.Plan; q.EOFWithData = false; return q }())
		}
		// single split at each prefix boundary of the current plan
		sum := 0
		for _, c := range sc.Plan.Chunks {
			sum += c
			if c > 0 && sum <= len(sc.Data) {
				q := base
				q.Chunks = []int{sum}
				cands = append(cands, q)
			}
		}
		q := base
		q.Rest = 1
		cands = append(cands, q)
		for _, c := range cands {
			if budget.Passed() {
				return
			}
			t := sc
			t.Plan = c
			if len(planKey(c)) < len(planKey(sc.Plan)) && class(t) {
				sc = t
			}
		}
	}
	simplify()
	// ddmin over document bytes (chunk removal), plan offsets rescaled for single-split plans
	n := 2
	for len(sc.Data) > 1 && !budget.Passed() {
		chunk := (len(sc.Data) + n - 1) / n
		reduced := false
		for start := 0; start < len(sc.Data) && !budget.Passed(); start += chunk {
			end := start + chunk
			if end > len(sc.Data) {
				end = len(sc.Data)
			}
			t := sc
			t.Data = append(append([]byte(nil), sc.Data[:start]...), sc.Data[end:]...)
			t.Plan = shiftPlan(sc.Plan, start, end)
			if class(t) {
				sc = t
				reduced = true
				if n > 2 {
					n--
				}
				break
			}
		}
		if !reduced {
			if chunk <= 1 {
				break
			}
			n *= 2
			if n > len(sc.Data) {
				n = len(sc.Data)
			}
		}
	}
	simplify()
	return sc
}

// shiftPlan adapts absolute positions in a plan after bytes [start,end) were removed.
func shiftPlan(p simio.ReadPlan, start, end int) simio.ReadPlan {
	q := p
	q.Chunks = append([]int(nil), p.Chunks...)
	if len(q.Chunks) >= 1 && len(q.Chunks) <= 2 && q.Chunks[0] >= end {
		q.Chunks[0] -= end - start
	} else if len(q.Chunks) >= 1 && len(q.Chunks) <= 2 && q.Chunks[0] > start {
		q.Chunks[0] = start
	}
	if p.Fault != nil {
		f := *p.Fault
		if f.Offset >= end {
			f.Offset -= end - start
		} else if f.Offset > start {
			f.Offset = start
		}
		q.Fault = &f
	}
	return q
}
