package engine

import (
	"bufio"
	"bytes"
	"encoding/json"
	"fmt"
	"os"
	"os/exec"
	"path/filepath"
	"runtime"
	"sort"
	"strconv"
	"strings"
	"sync"
	"time"

	astisub "github.com/asticode/go-astisub"

	"verif/sim/api"
	"verif/sim/canon"
	"verif/sim/corpus"
	"verif/sim/hooks"
	"verif/sim/prng"
	"verif/sim/sched"
	"verif/sim/simio"
)

// C20: independent calls are safe to run concurrently.
//
// A scenario is a set of task programs (read -> transform* -> write* on
// private data) and a list of phases; a phase runs a subset of the tasks under
// the seeded scheduler in one process. Oracles: (1) every step record of every
// task in every phase equals the task's pristine record (task alone in a fresh
// process); (2) the race detector, which sees the serialised tasks as
// unsynchronised callers, reports nothing; (3) every phase finishes within the
// step budget.

// TaskProg is one task's private program.
type TaskProg struct {
	Name        string         `json:"name"`
	Doc         []byte         `json:"doc"`
	Reader      string         `json:"reader"`
	Plan        simio.ReadPlan `json:"plan"`
	Ops         []api.Op       `json:"ops,omitempty"`
	MergeDoc    []byte         `json:"merge_doc,omitempty"`
	MergeReader string         `json:"merge_reader,omitempty"`
	Writers     []string       `json:"writers,omitempty"`
	// WFaults[i] != nil: the destination of Writers[i] fails at that offset (the call is expected to return an
	// error; what matters here is that a failed call leaves nothing behind for anybody else's next call)
	WFaults []*simio.WriteFault `json:"wfaults,omitempty"`
	// FileWrites: extensions written through the file helper Subtitles.Write into the scenario's directory
	// (one directory shared by all tasks, distinct file names) and read back through OpenFile. Real OS, not simulated.
	FileWrites []string `json:"file_writes,omitempty"`
	// OpenExt: when set, the document is first stored as <dir>/<tag>-in.<ext> and read through the file
	// helper astisub.Open (with the teletext options of Reader) instead of the simulated stream.
	OpenExt string `json:"open_ext,omitempty"`
	// MissingOpens: number of OpenFile calls on paths that do not exist, made first (each must fail, and must not
	// cost anything that later calls need: descriptors, slots, locks).
	MissingOpens int `json:"missing_opens,omitempty"`
	// Spec: when set, the task does not read a document: its cue list is built in code from this description
	// (values no reader of this library produces: a language nobody registered, one colour field only, ...).
	Spec *corpus.ListSpec `json:"spec,omitempty"`
	// PostOps: transformations applied to the task's own list after its writes (a writer must be done with the list
	// when it returns, successfully or not), followed by one more write with the first writer.
	PostOps []api.Op `json:"post_ops,omitempty"`
	// Many: when set, the list is corpus.ManyCues(Many) - large enough for the size thresholds of writers and
	// transformations (worker pools, batches) to be crossed while other tasks run
	Many int `json:"many,omitempty"`
}

// c20Dir is the directory file steps use; set before a scenario starts, read-only while tasks run.
var c20Dir string

// C20Scenario is one replayable case.
type C20Scenario struct {
	Tasks     []TaskProg         `json:"tasks"`
	Phases    [][]int            `json:"phases"`
	Seed      uint64             `json:"seed"`             // seeds the chooser when Decisions is empty
	Policy    string             `json:"policy,omitempty"` // uniform | rr | burst | starve0
	Mean      float64            `json:"mean,omitempty"`   // mean number of scheduling points between two parks
	Decisions [][]sched.Decision `json:"decisions,omitempty"`
	Build     string             `json:"build"` // "inst" | "plain": which binary family runs it
	// Real: secondary cross-check (thorough tier) - the tasks of every phase are released simultaneously on real
	// threads with GOMAXPROCS=Procs, no scheduler. Not replay-exact; labelled as such wherever it is reported.
	Real  bool `json:"real,omitempty"`
	Procs int  `json:"procs,omitempty"`
	// Sequential: a non-termination finding - the tasks of every phase run one after the other in a fresh process
	// without the scheduler and must finish within HangTimeoutS seconds.
	Sequential   bool `json:"sequential,omitempty"`
	HangTimeoutS int  `json:"hang_timeout_s,omitempty"`
}

var c20Frozen = time.Date(2020, 5, 17, 10, 0, 0, 0, time.UTC)

// installC20Env puts the process into simulation mode.
func installC20Env() {
	hooks.SetYield(sched.Point)
	hooks.SetLock(sched.Lock)
	astisub.Now = func() time.Time {
		sched.Point(-4)
		return c20Frozen
	}
}

// execTask runs a task program and returns its step records.
func execTask(p TaskProg) (rec []string) { return execTaskAt(p, "solo") }

// execTaskAt runs a task program; tag makes the names of the files it writes unique within the scenario directory.
func execTaskAt(p TaskProg, tag string) (rec []string) {
	hook := func(kind string) {
		switch kind {
		case "read":
			sched.Point(-1)
		case "write":
			sched.Point(-2)
		default:
			sched.Point(-3)
		}
	}
	if p.MissingOpens > 0 && c20Dir != "" {
		failed := 0
		for k := 0; k < p.MissingOpens; k++ {
			if _, err, pn := fileOpen(filepath.Join(c20Dir, tag+"-missing-"+strconv.Itoa(k)+".srt")); err != nil || pn != "" {
				failed++
			}
		}
		rec = append(rec, "openmissing:"+strconv.Itoa(p.MissingOpens)+":failed="+strconv.Itoa(failed))
	}
	sr := simio.NewReader(p.Doc, p.Plan)
	sr.Hook = hook
	sr.MaxEvents = 64*len(p.Doc) + 10000
	var s *astisub.Subtitles
	var err error
	var pn string
	if p.Many > 0 {
		s = corpus.ManyCues(p.Many).Build()
	} else if p.Spec != nil {
		s = p.Spec.Build()
	} else if p.OpenExt != "" && c20Dir != "" {
		// the same document is the same file for every task of the scenario: independent callers may well open one file
		path := inputPath(p)
		if _, serr := os.Stat(path); serr != nil {
			if werr := os.WriteFile(path, p.Doc, 0o644); werr != nil { // normally stored by the harness before the tasks start
				return append(rec, "open:cannot-store")
			}
		}
		s, err, pn = fileOpenOpts(path, p.Reader)
	} else {
		s, err, pn = api.Read(p.Reader, sr.Wrap())
	}
	switch {
	case sr.Overrun:
		return append(rec, "read:overrun")
	case pn != "":
		return append(rec, "read:panic")
	case err != nil:
		// "exactly what it returns when run alone" includes the error's text (taken now and again after the task's
		// other work: an error value must not change once it has been returned)
		msg := err.Error()
		norm := msg
		if c20Dir != "" {
			norm = strings.ReplaceAll(norm, c20Dir, "<dir>") // the scenario directory differs from process to process
		}
		rec = append(rec, "read:error:"+canon.HashBytes([]byte(norm)))
		defer func() {
			if err.Error() != msg {
				rec = append(rec, "read:error-text-changed-after-return")
			}
		}()
		if len(p.MergeDoc) > 0 { // keep the process busy like a successful task would: read the second document
			mr := simio.NewReader(p.MergeDoc, simio.ReadPlan{Rest: 256})
			mr.Hook = hook
			if _, e2, _ := api.Read(p.MergeReader, mr.Wrap()); e2 != nil {
				rec = append(rec, "read2:error:"+canon.HashBytes([]byte(e2.Error())))
			}
		}
		return rec
	}
	rec = append(rec, "read:ok:"+canon.Hash(s))
	var other *astisub.Subtitles
	if len(p.MergeDoc) > 0 {
		mr := simio.NewReader(p.MergeDoc, simio.ReadPlan{Rest: 256})
		mr.Hook = hook
		o, err, pn := api.Read(p.MergeReader, mr.Wrap())
		if err == nil && pn == "" {
			other = o
		}
	}
	for _, op := range p.Ops {
		if pn := api.Apply(op, s, other); pn != "" {
			rec = append(rec, "op:"+op.Name+":panic")
			continue
		}
		rec = append(rec, "op:"+op.Name+":"+canon.Hash(s))
	}
	for wi, wf := range p.Writers {
		wp := simio.WritePlan{}
		if wi%2 == 1 {
			wp.Medium = "rich" // every second destination also offers io.StringWriter / io.ReaderFrom
		}
		if wi < len(p.WFaults) && p.WFaults[wi] != nil {
			f := *p.WFaults[wi]
			wp.Fault = &f
		}
		w := simio.NewWriter(wp)
		w.Hook = hook
		before := canon.HashWithCapacity(s)
		err, pn := api.Write(wf, s, w.Wrap())
		switch {
		case pn != "":
			rec = append(rec, "write:"+wf+":panic")
		case err != nil:
			rec = append(rec, "write:"+wf+":error")
		default:
			rec = append(rec, "write:"+wf+":ok:"+canon.HashBytes(w.Buf))
		}
		if canon.HashWithCapacity(s) != before {
			rec = append(rec, "write:"+wf+":input-modified")
		}
	}
	for k, ext := range p.FileWrites {
		if c20Dir == "" {
			break
		}
		path := filepath.Join(c20Dir, tag+"-"+strconv.Itoa(k)+"."+ext)
		if strings.HasPrefix(ext, "sub/") {
			// into a sub-directory that does not exist (and that the harness removes after every phase, should a
			// call create it): whatever the library does about it, it must do the same the next time
			ext = ext[4:]
			path = filepath.Join(c20Dir, "sub", tag+"-"+strconv.Itoa(k)+"."+ext)
			ext = "sub-" + ext
		}
		err, pn := fileWrite(s, path)
		switch {
		case pn != "":
			rec = append(rec, "file:"+ext+":panic")
			continue
		case err != nil:
			rec = append(rec, "file:"+ext+":error")
			continue
		}
		b, rerr := os.ReadFile(path)
		if rerr != nil {
			rec = append(rec, "file:"+ext+":unreadable")
			continue
		}
		rec = append(rec, "file:"+ext+":ok:"+canon.HashBytes(b))
		back, err, pn := fileOpen(path)
		switch {
		case pn != "":
			rec = append(rec, "reopen:"+ext+":panic")
		case err != nil:
			rec = append(rec, "reopen:"+ext+":error")
		default:
			rec = append(rec, "reopen:"+ext+":ok:"+canon.Hash(back))
		}
	}
	for _, op := range p.PostOps {
		if pn := api.Apply(op, s, nil); pn != "" {
			rec = append(rec, "postop:"+op.Name+":panic")
			continue
		}
		rec = append(rec, "postop:"+op.Name+":"+canon.Hash(s))
	}
	if len(p.PostOps) > 0 && len(p.Writers) > 0 {
		w := simio.NewWriter(simio.WritePlan{})
		w.Hook = hook
		err, pn := api.Write(p.Writers[0], s, w.Wrap())
		switch {
		case pn != "":
			rec = append(rec, "rewrite:"+p.Writers[0]+":panic")
		case err != nil:
			rec = append(rec, "rewrite:"+p.Writers[0]+":error")
		default:
			rec = append(rec, "rewrite:"+p.Writers[0]+":ok:"+canon.HashBytes(w.Buf))
		}
	}
	return rec
}

// inputPath is where the document of a task that goes through Open is stored.
func inputPath(p TaskProg) string {
	return filepath.Join(c20Dir, "in-"+canon.HashBytes(p.Doc)+"."+p.OpenExt)
}

// storeInputs writes the input files of a scenario (harness work, done before any task starts).
func storeInputs(sc C20Scenario) {
	for _, t := range sc.Tasks {
		if t.OpenExt != "" && c20Dir != "" {
			_ = os.WriteFile(inputPath(t), t.Doc, 0o644)
		}
	}
}

func fileWrite(s *astisub.Subtitles, path string) (err error, panicked string) {
	defer func() {
		if p := recover(); p != nil {
			panicked = fmt.Sprint(p)
		}
	}()
	return s.Write(path), ""
}

func fileOpenOpts(path, reader string) (s *astisub.Subtitles, err error, panicked string) {
	defer func() {
		if p := recover(); p != nil {
			panicked = fmt.Sprint(p)
		}
	}()
	o := astisub.Options{Filename: path}
	switch reader {
	case "ts":
		o.Teletext = astisub.TeletextOptions{PID: api.TSPID, Page: api.TSPage}
	case "ts-pid":
		o.Teletext = astisub.TeletextOptions{PID: api.TSPID}
	case "ts-page":
		o.Teletext = astisub.TeletextOptions{Page: api.TSPage}
	case "stl-ignoretc":
		o.STL = astisub.STLOptions{IgnoreTimecodeStartOfProgramme: true}
	}
	s, err = astisub.Open(o)
	return
}

func fileOpen(path string) (s *astisub.Subtitles, err error, panicked string) {
	defer func() {
		if p := recover(); p != nil {
			panicked = fmt.Sprint(p)
		}
	}()
	s, err = astisub.OpenFile(path)
	return
}

// ---- choosers --------------------------------------------------------------

type genChooser struct {
	r      *prng.R
	policy string
	mean   float64
	calls  int
}

func (g *genChooser) Next(live []int, last int) sched.Decision {
	d := g.next(live, last)
	// a long-running phase (a pipeline that legitimately executes millions of scheduling points, e.g.
	// ForceDuration(3h) followed by Fragment(0.7s)) is finished with ever coarser time slices instead of
	// exhausting the step budget; the budgets actually used are what is recorded and replayed
	g.calls++
	switch {
	case g.calls > 300000:
		d.Budget *= 4096
	case g.calls > 100000:
		d.Budget *= 64
	}
	return d
}

func (g *genChooser) next(live []int, last int) sched.Decision {
	pick := live[g.r.Intn(len(live))]
	switch g.policy {
	case "rr":
		pick = live[0]
		for _, id := range live {
			if id > last {
				pick = id
				break
			}
		}
	case "burst":
		for _, id := range live {
			if id == last && g.r.Bool(0.9) {
				pick = id
			}
		}
	case "starve0":
		if len(live) > 1 && pick == live[0] && live[0] == 0 && g.r.Bool(0.95) {
			pick = live[1+g.r.Intn(len(live)-1)]
		}
	}
	return sched.Decision{Task: pick, Budget: g.r.Geometric(g.mean)}
}

type replayChooser struct {
	d []sched.Decision
	i int
}

func (c *replayChooser) Next(live []int, last int) sched.Decision {
	if c.i < len(c.d) {
		d := c.d[c.i]
		c.i++
		return d
	}
	// beyond the recording: run the first live task to completion
	return sched.Decision{Task: live[0], Budget: 1 << 30}
}

// ---- in-process execution of a scenario (child side) -------------------------

// PhaseResult is what one phase produced.
type PhaseResult struct {
	Records   [][]string       `json:"records"` // per task of the phase (same order as the phase list)
	Decisions []sched.Decision `json:"decisions"`
	Switches  int              `json:"switches"`
	Parks     int              `json:"parks"`
	TraceHash string           `json:"trace_hash"`
	Err       string           `json:"err,omitempty"` // watchdog / steps
	Overlaps  map[string]int   `json:"overlaps,omitempty"`
}

// ScenarioResult is what one scenario produced in a child.
type ScenarioResult struct {
	Phases []PhaseResult `json:"phases"`
}

func runScenario(sc C20Scenario, siteFunc map[int]string) ScenarioResult {
	var out ScenarioResult
	root := prng.New(sc.Seed)
	if dir, err := os.MkdirTemp("", "c20-files-"); err == nil {
		c20Dir = dir
		defer func() { c20Dir = ""; os.RemoveAll(dir) }()
	}
	if sc.Real {
		return runScenarioReal(sc)
	}
	for pi, phase := range sc.Phases {
		var pr PhaseResult
		recs := make([][]string, len(phase)) // published as pr.Records only when the phase ran to its end
		var tasks []*sched.Task
		for i, ti := range phase {
			i, prog := i, sc.Tasks[ti]
			tag := fmt.Sprintf("p%d-t%d", pi, i)
			tasks = append(tasks, &sched.Task{ID: i, Body: func(t *sched.Task) { recs[i] = execTaskAt(prog, tag) }})
		}
		var ch sched.Chooser
		if pi < len(sc.Decisions) && sc.Decisions[pi] != nil {
			ch = &replayChooser{d: sc.Decisions[pi]}
		} else if len(phase) == 1 {
			ch = &replayChooser{}
		} else {
			mean := sc.Mean
			if mean <= 0 {
				mean = 20
			}
			ch = &genChooser{r: root.Derive("phase", pi), policy: sc.Policy, mean: mean}
		}
		s := &sched.Sched{Tasks: tasks, Chooser: ch, MaxSteps: 2_000_000, Watchdog: 60 * time.Second}
		if siteFunc != nil && len(phase) > 1 {
			pr.Overlaps = map[string]int{}
			s.OnPark = func(s *sched.Sched, t *sched.Task, site int) {
				f := siteFunc[site]
				if f == "" {
					return
				}
				for _, u := range s.Tasks {
					if u.ID == t.ID {
						continue
					}
					us, done := s.SiteOf(u.ID)
					if !done && us > 0 && siteFunc[us] == f {
						pr.Overlaps[f]++
					}
				}
			}
		}
		if err := s.Run(); err != nil {
			pr.Err = err.Error() // tasks of an abandoned phase may still be running and writing recs: never read it
			pr.Records = make([][]string, len(phase))
		} else {
			pr.Records = recs
		}
		pr.Decisions = s.Decisions
		pr.Switches = s.Switches
		pr.Parks = len(s.Trace)
		pr.TraceHash = canon.HashBytes(mustJSON(s.Trace))
		out.Phases = append(out.Phases, pr)
		if pr.Err != "" {
			break // goroutines of an abandoned phase may still run: nothing after it is meaningful
		}
		if c20Dir != "" {
			os.RemoveAll(filepath.Join(c20Dir, "sub"))
		}
	}
	return out
}

// runScenarioReal releases the tasks of each phase at the same time on real threads.
func runScenarioReal(sc C20Scenario) ScenarioResult {
	var out ScenarioResult
	if sc.Procs > 0 {
		defer runtime.GOMAXPROCS(runtime.GOMAXPROCS(sc.Procs))
	}
	if dir, err := os.MkdirTemp("", "c20-files-"); err == nil {
		c20Dir = dir
		defer func() { c20Dir = ""; os.RemoveAll(dir) }()
	}
	storeInputs(sc)
	for pi, phase := range sc.Phases {
		var pr PhaseResult
		pr.Records = make([][]string, len(phase))
		var wg sync.WaitGroup
		start := make(chan struct{})
		for i, ti := range phase {
			wg.Add(1)
			go func(i int, prog TaskProg) {
				defer wg.Done()
				<-start
				pr.Records[i] = execTaskAt(prog, fmt.Sprintf("p%d-t%d", pi, i))
			}(i, sc.Tasks[ti])
		}
		close(start)
		wg.Wait()
		pr.TraceHash = "real-threads"
		out.Phases = append(out.Phases, pr)
		if c20Dir != "" {
			os.RemoveAll(filepath.Join(c20Dir, "sub"))
		}
	}
	return out
}

type c20Req struct {
	Kind      string        `json:"kind"` // c20-run | c20-solo
	Scenarios []C20Scenario `json:"scenarios,omitempty"`
	Task      *TaskProg     `json:"task,omitempty"`
}

type c20Resp struct {
	Results []ScenarioResult `json:"results,omitempty"`
	Records []string         `json:"records,omitempty"`
}

const (
	markBegin = "@@C20-SCENARIO-BEGIN %d@@\n"
	markEnd   = "@@C20-SCENARIO-END %d@@\n"
)

func loadSiteFuncs(path string) map[int]string {
	if path == "" {
		return nil
	}
	b, err := os.ReadFile(path)
	if err != nil {
		return nil
	}
	var tb struct {
		Sites []struct {
			ID   int    `json:"id"`
			Func string `json:"func"`
		} `json:"sites"`
	}
	if json.Unmarshal(b, &tb) != nil {
		return nil
	}
	m := map[int]string{}
	for _, s := range tb.Sites {
		m[s.ID] = s.Func
	}
	return m
}

func c20Child(cfg Config, kind string, raw []byte) int {
	var req c20Req
	if err := json.Unmarshal(raw, &req); err != nil {
		fmt.Fprintln(os.Stderr, "child:", err)
		return 2
	}
	installC20Env()
	var resp c20Resp
	switch kind {
	case "c20-solo":
		if dir, err := os.MkdirTemp("", "c20-files-"); err == nil {
			c20Dir = dir
			defer os.RemoveAll(dir)
		}
		resp.Records = execTask(*req.Task)
	case "c20-seq":
		// the tasks of every phase one after the other on this goroutine, no scheduler: used to tell a tree that
		// really does not terminate from a scheduled run that was abandoned
		for _, sc := range req.Scenarios {
			if dir, err := os.MkdirTemp("", "c20-files-"); err == nil {
				c20Dir = dir
			}
			storeInputs(sc)
			var r ScenarioResult
			for pi, phase := range sc.Phases {
				pr := PhaseResult{Records: make([][]string, len(phase)), TraceHash: "sequential"}
				for i, ti := range phase {
					pr.Records[i] = execTaskAt(sc.Tasks[ti], fmt.Sprintf("p%d-t%d", pi, i))
				}
				r.Phases = append(r.Phases, pr)
				os.RemoveAll(filepath.Join(c20Dir, "sub"))
			}
			os.RemoveAll(c20Dir)
			c20Dir = ""
			resp.Results = append(resp.Results, r)
		}
	case "c20-run":
		sf := loadSiteFuncs(cfg.Sites)
		for i, sc := range req.Scenarios {
			fmt.Fprintf(os.Stderr, markBegin, i)
			r := runScenario(sc, sf)
			resp.Results = append(resp.Results, r)
			fmt.Fprintf(os.Stderr, markEnd, i)
			if n := len(r.Phases); n > 0 && strings.Contains(r.Phases[n-1].Err, "watchdog") {
				break // abandoned goroutines may still run in this process: nothing after this is meaningful
			}
		}
	}
	os.Stdout.Write(mustJSON(resp))
	return 0
}

// ---- parent side: child processes ---------------------------------------------

func c20Bin(cfg Config, build string, race bool) string {
	name := "simcheck." + build
	if race {
		name += ".race"
	}
	return filepath.Join(cfg.Bins, name)
}

// childProcs is the GOMAXPROCS value of the next child (1 unless a caller asks for more).
var childProcs = 1

func runChildProc(cfg Config, bin string, req c20Req, timeout time.Duration) (c20Resp, string, error) {
	var resp c20Resp
	dir, err := os.MkdirTemp(cfg.Scratch, "c20-")
	if err != nil {
		return resp, "", err
	}
	defer os.RemoveAll(dir)
	reqPath := filepath.Join(dir, "req.json")
	if err := os.WriteFile(reqPath, mustJSON(req), 0o644); err != nil {
		return resp, "", err
	}
	args := []string{"-mode", "child", "-child", reqPath}
	if cfg.Sites != "" && strings.Contains(filepath.Base(bin), "inst") {
		args = append(args, "-sites", cfg.Sites)
	}
	cmd := exec.Command(bin, args...)
	var stdout, stderr bytes.Buffer
	cmd.Stdout, cmd.Stderr = &stdout, &stderr
	// one P: only one task is runnable at a time anyway, and per-P caches (sync.Pool) then behave the same in every run
	cmd.Env = append(os.Environ(), "GORACE=halt_on_error=0 history_size=4", fmt.Sprintf("GOMAXPROCS=%d", childProcs))
	if cfg.Scratch != "" {
		cmd.Env = append(cmd.Env, "TMPDIR="+cfg.Scratch) // the scenario directories of the file steps live (briefly) in the check's scratch directory
	}
	if err := cmd.Start(); err != nil {
		return resp, "", err
	}
	done := make(chan error, 1)
	go func() { done <- cmd.Wait() }()
	select {
	case err = <-done:
	case <-time.After(timeout):
		_ = cmd.Process.Kill()
		<-done
		return resp, stderr.String(), fmt.Errorf("child timed out after %v", timeout)
	}
	// the race runtime makes the process exit with status 66 when it reported something; that is not a failure of the child
	if stdout.Len() == 0 {
		return resp, stderr.String(), fmt.Errorf("child produced no result (%v): %s", err, trunc(stderr.String(), 400))
	}
	if jerr := json.Unmarshal(stdout.Bytes(), &resp); jerr != nil {
		return resp, stderr.String(), jerr
	}
	return resp, stderr.String(), nil
}

// raceReports splits a child's stderr into the race reports of each scenario.
func raceReports(stderr string) map[int][]string {
	out := map[int][]string{}
	cur := -1
	var rep []string
	inRep := false
	flush := func() {
		if inRep && len(rep) > 0 {
			out[cur] = append(out[cur], strings.Join(rep, "\n"))
		}
		rep, inRep = nil, false
	}
	sc := bufio.NewScanner(strings.NewReader(stderr))
	sc.Buffer(make([]byte, 1<<20), 1<<24)
	for sc.Scan() {
		line := sc.Text()
		var n int
		if _, err := fmt.Sscanf(line, "@@C20-SCENARIO-BEGIN %d@@", &n); err == nil {
			flush()
			cur = n
			continue
		}
		if _, err := fmt.Sscanf(line, "@@C20-SCENARIO-END %d@@", &n); err == nil {
			flush()
			continue
		}
		if strings.HasPrefix(line, "WARNING: DATA RACE") {
			flush()
			inRep = true
		}
		if inRep {
			rep = append(rep, line)
			if strings.HasPrefix(line, "==================") && len(rep) > 2 {
				flush()
			}
		}
	}
	flush()
	return out
}

// raceSignature extracts the first non-runtime frame of each of the two accesses.
func raceSignature(report string) string {
	var tops []string
	lines := strings.Split(report, "\n")
	for i, l := range lines {
		if strings.Contains(l, " at 0x") && (strings.HasPrefix(l, "Write") || strings.HasPrefix(l, "Read") || strings.HasPrefix(l, "Previous") || strings.HasPrefix(l, "Atomic")) {
			for j := i + 1; j < len(lines) && strings.TrimSpace(lines[j]) != ""; j += 2 {
				fn := strings.TrimSuffix(strings.TrimSpace(lines[j]), "()")
				if strings.HasPrefix(fn, "runtime.") || strings.HasPrefix(fn, "sync.") || strings.HasPrefix(fn, "sync/") || strings.HasPrefix(fn, "internal/") {
					continue
				}
				// strip the module path, keep pkg.(Type).Func
				if k := strings.LastIndex(fn, "/"); k >= 0 {
					fn = fn[k+1:]
				}
				tops = append(tops, fn)
				break
			}
		}
	}
	sort.Strings(tops)
	return strings.Join(tops, " <-> ")
}

// ---- pristine baselines -----------------------------------------------------

type pristine struct {
	rec      []string
	unstable map[int]bool // record indexes that differ between two fresh processes (C19 matter, not C20's)
	err      error
}

func computePristine(cfg Config, build string, p TaskProg) pristine {
	bin := c20Bin(cfg, build, false)
	var runs [][]string
	for i := 0; i < 2; i++ {
		resp, _, err := runChildProc(cfg, bin, c20Req{Kind: "c20-solo", Task: &p}, 60*time.Second)
		if err != nil {
			return pristine{err: err}
		}
		runs = append(runs, resp.Records)
	}
	pr := pristine{rec: runs[0], unstable: map[int]bool{}}
	if len(runs[0]) != len(runs[1]) {
		for i := range runs[0] {
			pr.unstable[i] = true
		}
		return pr
	}
	for i := range runs[0] {
		if runs[0][i] != runs[1][i] {
			pr.unstable[i] = true
		}
	}
	return pr
}

// ---- scenario generation ------------------------------------------------------

type c20Limits struct {
	realRuns  int // per worker: scenarios also run on real threads (secondary cross-check)
	scenarios int
	maxTasks  int
	batch     int
	plainFrac float64
}

func c20LimitsFor(tier string) c20Limits {
	if tier == "thorough" {
		return c20Limits{scenarios: 20000, maxTasks: 32, batch: 12, plainFrac: 0.25, realRuns: 120}
	}
	if tier == "smoke" { // determinism self-test only
		return c20Limits{scenarios: 32, maxTasks: 6, batch: 8, plainFrac: 0.25}
	}
	return c20Limits{scenarios: 320, maxTasks: 6, batch: 10, plainFrac: 0.25, realRuns: 6}
}

type docPool struct {
	docs []corpus.Doc
}

const nationalText = "a#b$c@d[e\\f]g^h_i`j{k|l}m~"

func buildDocPool(cfg Config) (*docPool, error) {
	root := prng.New(cfg.Seed)
	p := &docPool{}
	for c := 0; c < 8; c++ {
		p.docs = append(p.docs, corpus.Doc{Name: fmt.Sprintf("ts-charset%d", c), Format: "ts", Data: corpus.FixedTS(c, nationalText, 2)})
	}
	for i := 0; i < 3; i++ {
		p.docs = append(p.docs, corpus.GenTS(root.Derive("c20-ts", i), i))
	}
	// stream segments without PAT/PMT: PID auto-detection must fail on them whatever was read before
	for _, c := range []int{1, 7} {
		p.docs = append(p.docs, corpus.Doc{Name: fmt.Sprintf("ts-nopmt-charset%d", c), Format: "ts", Data: corpus.StripTSTables(corpus.FixedTS(c, nationalText, 2))})
	}
	for _, f := range []string{"srt", "vtt", "ssa", "ttml", "stl"} {
		for i := 0; i < 4; i++ {
			p.docs = append(p.docs, corpus.Gen(f, root.Derive("c20-"+f, i), i))
		}
	}
	// structurally rich documents (STYLE blocks, regions, unknown sections)
	for _, f := range []string{"srt", "vtt", "ssa"} {
		b, _ := corpus.LongLineBase(f)
		p.docs = append(p.docs, corpus.Doc{Name: "rich-" + f, Format: f, Data: b})
	}
	// STL files announcing a character code table other than Latin (rejected today: the error path, and whatever
	// a later change makes of those tables, runs concurrently too)
	for _, cct := range []string{"01", "02", "04"} {
		blocks := [][]byte{corpus.TTI(0, 0xff, [4]byte{0, 0, 1, 0}, [4]byte{0, 0, 2, 0}, 20, 2, []byte{0x0b, 0x0b, 'c', 'c', 't', ' ', 0xc2, 'e'})}
		p.docs = append(p.docs, corpus.Doc{Name: "stl-cct" + cct, Format: "stl", Data: corpus.BuildSTLVariant(25, '1', "cct", "00000000", blocks, corpus.STLVariant{CCT: cct})})
	}
	// invalid documents (error paths run concurrently too): seeded mutations of small generated documents
	mr := root.Derive("c20-invalid", 0)
	for _, f := range []string{"srt", "vtt", "ssa", "ttml", "stl"} {
		src := corpus.Gen(f, root.Derive("c20-inv-"+f, 0), 90)
		for k := 0; k < 2; k++ {
			p.docs = append(p.docs, corpus.Mutate(mr, src, k))
		}
	}
	// documents with hundreds of cues (size thresholds inside readers and writers)
	p.docs = append(p.docs, corpus.LargeTTML(root.Derive("c20-large-ttml", 0), 300), corpus.Large("srt", root.Derive("c20-large-srt", 0), 40000),
		corpus.Large("stl", root.Derive("c20-large-stl", 0), 45000), corpus.Large("ssa", root.Derive("c20-large-ssa", 0), 40000), corpus.Large("vtt", root.Derive("c20-large-vtt", 0), 40000))
	// TTML documents that differ only in their (unknown) language tag, pairwise sharing the primary subtag
	for _, tag := range []string{"pt-PT", "pt-BR", "de-AT", "de-CH"} {
		p.docs = append(p.docs, corpus.Doc{Name: "ttml-lang-" + tag, Format: "ttml", Data: []byte(`<?xml version="1.0" encoding="UTF-8"?>
<tt xml:lang="` + tag + `" xmlns="http://www.w3.org/ns/ttml"><head><metadata><ttm:title xmlns:ttm="http://www.w3.org/ns/ttml#metadata">lang</ttm:title></metadata></head>
<body><div><p begin="00:00:01.000" end="00:00:02.000">Ol&#225;</p><p begin="00:00:03.000" end="00:00:04.000">Tsch&#252;ss</p></div></body></tt>`)})
	}
	// the same timestamp text in documents of different formats, each with the other format's separator (comma in
	// WebVTT / TTML, dot in SRT): what one reader accepts or rejects must not depend on what another has seen
	p.docs = append(p.docs,
		corpus.Doc{Name: "srt-comma-times", Format: "srt", Data: []byte("1\n07:11:13,517 --> 07:11:15,919\ncomma\n\n2\n07:11:16,000 --> 07:11:17,250\ntimes\n")},
		corpus.Doc{Name: "vtt-comma-times", Format: "vtt", Data: []byte("WEBVTT\n\n07:11:13,517 --> 07:11:15,919\ncomma\n\n07:11:16,000 --> 07:11:17,250\ntimes\n")},
		corpus.Doc{Name: "vtt-dot-times", Format: "vtt", Data: []byte("WEBVTT\n\n07:11:13.517 --> 07:11:15.919\ndot\n\n07:11:16.000 --> 07:11:17.250\ntimes\n")},
		corpus.Doc{Name: "srt-dot-times", Format: "srt", Data: []byte("1\n07:11:13.517 --> 07:11:15.919\ndot\n\n2\n07:11:16.000 --> 07:11:17.250\ntimes\n")},
		corpus.Doc{Name: "ttml-comma-times", Format: "ttml", Data: []byte(`<tt xmlns="http://www.w3.org/ns/ttml"><body><div><p begin="07:11:13,517" end="07:11:15,919">comma</p></div></body></tt>`)},
		corpus.Doc{Name: "ttml-dot-times", Format: "ttml", Data: []byte(`<tt xmlns="http://www.w3.org/ns/ttml"><body><div><p begin="07:11:13.517" end="07:11:15.919">dot</p></div></body></tt>`)},
		corpus.Doc{Name: "ssa-same-times", Format: "ssa", Data: []byte("[Script Info]\nTitle: t\n\n[Events]\nFormat: Marked, Start, End, Style, Name, MarginL, MarginR, MarginV, Effect, Text\nDialogue: Marked=0,7:11:13.51,7:11:15.91,Default,,0,0,0,,ssa\n")})
	// one long line per document, below and above the line scanner's limit: what is accepted must not depend on
	// what anybody read before (theme "longlines")
	for _, f := range []string{"ssa", "srt", "vtt"} {
		for _, L := range []int{40000, 70000} {
			p.docs = append(p.docs, corpus.LongLine(f, 3, 1, "text", L))
		}
	}
	// SSA documents that re-declare their columns half way through [Events] (first Format line as in nearly every file)
	// (part of corpus.Fixed, together with WebVTT header lines, an STL file ending in a dangling diacritic, ...)
	p.docs = append(p.docs, corpus.Fixed()...)
	// UTF-16 documents (rejected today; the input that support for a second encoding would start to accept), small and
	// larger than a 4 KiB transcoding chunk: theme "utf16" makes every task read one of them
	{
		lt := corpus.LargeTTML(root.Derive("c20-utf16-ttml", 0), 40)
		st := corpus.GenTTML(root.Derive("c20-utf16-ttml", 1), 1)
		p.docs = append(p.docs, corpus.UTF16(lt, false), corpus.UTF16(lt, true), corpus.UTF16(st, false), corpus.UTF16(st, true),
			corpus.UTF16(corpus.GenSRT(root.Derive("c20-utf16-srt", 0), 0), false), corpus.UTF16(corpus.GenVTT(root.Derive("c20-utf16-vtt", 0), 0), true),
			corpus.UTF16(corpus.GenSSA(root.Derive("c20-utf16-ssa", 0), 0), false))
	}
	td, err := corpus.LoadTestdata(cfg.Repo)
	if err != nil {
		return nil, err
	}
	for _, d := range td {
		if len(d.Data) <= 4000 && strings.Contains(d.Name, "-in") {
			p.docs = append(p.docs, d)
		}
	}
	return p, nil
}

func genOps(r *prng.R) []api.Op {
	var ops []api.Op
	n := r.Intn(6)
	ms := int64(time.Millisecond)
	for i := 0; i < n; i++ {
		switch r.Intn(9) {
		case 0:
			ops = append(ops, api.Op{Name: "add", D: int64(r.Range(-3000, 3000)) * ms})
		case 1:
			ops = append(ops, api.Op{Name: "fragment", D: int64(r.Range(500, 3000)) * ms})
		case 2:
			ops = append(ops, api.Op{Name: "unfragment"})
		case 3:
			ops = append(ops, api.Op{Name: "order"})
		case 4:
			ops = append(ops, api.Op{Name: "merge"})
		case 5:
			ops = append(ops, api.Op{Name: "optimize"})
		case 6:
			ops = append(ops, api.Op{Name: "removestyling"})
		case 7:
			// shorter and (much) longer than the documents, so that both the trimming and the padding path run
			ops = append(ops, api.Op{Name: "forceduration", D: int64(r.PickInt(1000, 20000, 600000, 3*3600000)) * ms, Flag: r.Bool(0.7)})
		case 8:
			ops = append(ops, api.Op{Name: "linear", D: 1000 * ms, D2: int64(r.Range(900, 1100)) * ms, D3: 5000 * ms, D4: int64(r.Range(4900, 5200)) * ms})
		}
	}
	return ops
}

func genTask(r *prng.R, pool *docPool, idx int, theme string) TaskProg {
	d := pool.docs[r.Intn(len(pool.docs))]
	if r.Bool(0.35) { // bias towards the teletext charset documents: the shared tables with conflicting patches
		d = pool.docs[r.Intn(8)]
	}
	if theme != "" && theme != "writers" && theme != "files" && theme != "missing" && theme != "samefile" { // themed scenario: every task works on the same format (different documents)
		var same []corpus.Doc
		for _, x := range pool.docs {
			if x.Format == theme || (theme == "utf16" && strings.Contains(x.Name, "~utf16")) || (theme == "times" && strings.HasSuffix(x.Name, "-times")) || (theme == "longlines" && strings.HasPrefix(x.Name, "longline-")) {
				same = append(same, x)
			}
		}
		if len(same) > 0 {
			d = same[r.Intn(len(same))]
		}
	}
	readers := corpus.ReaderConfigs(d.Format)
	t := TaskProg{Name: fmt.Sprintf("t%d:%s", idx, d.Name), Doc: d.Data, Reader: readers[r.Intn(len(readers))]}
	t.Plan = simio.ReadPlan{Rest: r.PickInt(0, 1, 7, 64, 188, 512)}
	if len(d.Data) > 6000 && t.Plan.Rest == 1 {
		t.Plan.Rest = 64
	}
	if d.Format == "ts" {
		t.Plan.Medium = r.Pick("plain", "seekable", "bufio")
	}
	if (r.Bool(0.12) || theme == "writers" && r.Bool(0.5)) && theme != "samefile" && theme != "missing" { // a list built in code instead of read from a document (half of a writer storm: richly attributed lists)
		l := corpus.GenList(r, 300000+idx)
		if l.Meta != nil && r.Bool(0.7) {
			l.Meta.Language = r.Pick("de", "pt", "de-AT", "pt-BR", "xx", "de-CH")
		}
		t.Spec, t.OpenExt = &l, ""
		t.Name = "t" + strconv.Itoa(idx) + ":" + l.Name
	}
	if r.Bool(0.08) && theme != "samefile" && theme != "missing" && theme != "times" && theme != "utf16" { // a long plain list: size thresholds of writers and transformations
		t.Many, t.Spec, t.OpenExt, t.Doc = r.PickInt(307, 307, 1100, 4200), nil, "", nil // 307: 921 fragments, not a multiple of 2, 4 or 16
		t.Name = "t" + strconv.Itoa(idx) + ":many-" + strconv.Itoa(t.Many)
	}
	t.Ops = genOps(r)
	if t.Many > 0 { // Fragment / ForceDuration are quadratic: not on thousands of cues; at most two ops
		var ops []api.Op
		for _, op := range t.Ops {
			if op.Name == "fragment" || op.Name == "forceduration" {
				continue
			}
			if len(ops) < 2 {
				ops = append(ops, op)
			}
		}
		if t.Many == 307 && r.Bool(0.7) { // Fragment leaves ~900 cues that share their lines: then something that writes into them
			ops = []api.Op{{Name: "fragment", D: 700 * int64(time.Millisecond)}, {Name: r.Pick("removestyling", "add", "optimize", "unfragment")}}
		}
		t.Ops = ops
	}
	if t.Spec != nil && t.Spec.ExtremeTimes() {
		var ops []api.Op
		for _, op := range t.Ops {
			if op.Name != "fragment" && op.Name != "forceduration" {
				ops = append(ops, op)
			}
		}
		t.Ops = ops
	}
	if theme != "" && r.Bool(0.4) { // themed scenarios: lists of one format are merged into each other more often
		t.Ops = append([]api.Op{{Name: "merge"}}, t.Ops...)
	}
	for _, op := range t.Ops {
		if op.Name == "merge" && t.MergeDoc == nil {
			m := pool.docs[r.Intn(len(pool.docs))]
			if r.Bool(0.6) { // usually a document of the same format (two WebVTT files with STYLE blocks, two TTML files with regions, ...)
				var same []corpus.Doc
				for _, x := range pool.docs {
					if x.Format == d.Format {
						same = append(same, x)
					}
				}
				m = same[r.Intn(len(same))]
			}
			t.MergeDoc, t.MergeReader = m.Data, corpus.ReaderConfigs(m.Format)[0]
		}
	}
	nw := r.Intn(3)
	for i := 0; i < nw; i++ {
		t.Writers = append(t.Writers, api.WriterFormats[r.Intn(len(api.WriterFormats))])
	}
	for i := range t.Writers {
		if r.Bool(0.15) { // a destination that fails: disk full, peer gone
			if t.WFaults == nil {
				t.WFaults = make([]*simio.WriteFault, len(t.Writers))
			}
			t.WFaults[i] = &simio.WriteFault{Offset: r.PickInt(0, 1, 100, 1000, 1030, 1200, 1500, 3000, 10000), Kind: simio.WriteFaultKinds[r.Intn(len(simio.WriteFaultKinds))], Short: r.Bool(0.5)}
		}
	}
	if theme == "samefile" && (t.Reader == "ssa-opts" || t.Reader == "ssa-cb") {
		t.Reader = "ssa"
	}
	if (r.Bool(0.15) || theme == "files" || theme == "missing" || theme == "samefile") && t.Reader != "ssa-opts" && t.Reader != "ssa-cb" {
		// through the file helper: the extension selects the reader, so only configurations Open can express
		t.OpenExt = map[string]string{"srt": "srt", "vtt": "vtt", "ssa": r.Pick("ssa", "ass"), "stl": "stl", "ttml": "ttml", "ts": "ts"}[d.Format]
	}
	if r.Bool(0.3) || theme == "files" {
		for i := r.Range(1, 2); i > 0; i-- {
			t.FileWrites = append(t.FileWrites, r.Pick("", "", "", "sub/")+r.Pick("srt", "vtt", "ssa", "ass", "stl", "ttml"))
		}
	}
	if len(t.Writers) > 0 && (r.Bool(0.25) || (t.WFaults != nil && r.Bool(0.9))) { // the list is used again after it was written (or after the attempt failed)
		for _, op := range genOps(r) {
			if op.Name != "fragment" && op.Name != "forceduration" && op.Name != "merge" && len(t.PostOps) < 2 {
				t.PostOps = append(t.PostOps, op)
			}
		}
	}
	return t
}

func genScenario(root *prng.R, pool *docPool, j int, lim c20Limits) C20Scenario {
	r := root.Derive("c20-scenario", j)
	n := r.Range(2, 6)
	if lim.maxTasks > 6 && r.Bool(0.2) {
		n = r.Range(7, lim.maxTasks)
	}
	sc := C20Scenario{Seed: r.Uint64(), Policy: r.Pick("uniform", "rr", "burst", "starve0"), Mean: float64(r.PickInt(1, 2, 5, 20, 100, 1000))}
	// swarm: a third of the scenarios are themed (all tasks on one format, so that the same functions and
	// tables are in use by several tasks at once), some are "writer storms" (all tasks write the same formats)
	theme := r.Pick("", "", "", "", "ts", "ts", "stl", "vtt", "srt", "ssa", "ttml", "writers", "writers", "files", "missing", "samefile", "utf16", "times", "longlines")
	fileExt := r.Pick("srt", "vtt", "ssa", "stl", "ttml")
	storm := []string{api.WriterFormats[r.Intn(len(api.WriterFormats))], api.WriterFormats[r.Intn(len(api.WriterFormats))]}
	var all []int
	for i := 0; i < n; i++ {
		t := genTask(r, pool, i, theme)
		if theme == "writers" {
			t.Writers, t.WFaults = storm, nil
			if i%2 == 0 && r.Bool(0.6) { // some of the storm's calls fail while the others succeed
				t.WFaults = []*simio.WriteFault{{Offset: r.PickInt(0, 1, 100, 1000, 1030, 1200, 1500, 3000, 10000), Kind: simio.WriteFaultKinds[r.Intn(len(simio.WriteFaultKinds))]}, nil}
				t.PostOps = []api.Op{{Name: r.Pick("add", "removestyling", "optimize"), D: int64(time.Second)}}
			}
		}
		if theme == "files" { // every task uses the file helpers with the same extension in the same directory
			t.FileWrites = []string{fileExt, r.Pick("", "sub/") + fileExt}
		}
		if theme == "samefile" && i > 0 { // every task opens the same file (same options) and then goes its own way
			t.Doc, t.Reader, t.OpenExt, t.Plan = sc.Tasks[0].Doc, sc.Tasks[0].Reader, sc.Tasks[0].OpenExt, sc.Tasks[0].Plan
			t.Name = fmt.Sprintf("t%d:same-as-t0", i)
		}
		if theme == "missing" { // many failing opens first, then the file helpers for real
			t.MissingOpens = r.Range(20, 30)
			t.FileWrites = []string{fileExt}
		}
		sc.Tasks = append(sc.Tasks, t)
		all = append(all, i)
	}
	sc.Phases = append(sc.Phases, all)
	// solo-again phases in a seeded order (at most 4)
	for k, i := range r.Perm(n) {
		if k >= 4 {
			break
		}
		sc.Phases = append(sc.Phases, []int{i})
	}
	sc.Build = "inst"
	if !hooks.Instrumented || r.Bool(lim.plainFrac) {
		sc.Build = "plain"
	}
	return sc
}

// ---- evaluation -----------------------------------------------------------------

func taskHash(p TaskProg) string { return canon.HashBytes(mustJSON(p)) }

type c20Eval struct {
	cfg   Config
	cache map[string]pristine
}

func (e *c20Eval) pristineOf(build string, p TaskProg) pristine {
	k := build + ":" + taskHash(p)
	if v, ok := e.cache[k]; ok {
		return v
	}
	v := computePristine(e.cfg, build, p)
	e.cache[k] = v
	return v
}

// judge applies the oracles to the result of one scenario; races are the race reports attributed to it.
func (e *c20Eval) judge(sc C20Scenario, res ScenarioResult, races []string) (vs []Violation, inconclusive bool) {
	if os.Getenv("VERIF_DEBUG") != "" {
		for pi, ph := range res.Phases {
			for i, ti := range sc.Phases[pi] {
				fmt.Fprintf(os.Stderr, "debug: phase %d task %d (%s): got %v pristine %v\n", pi, ti, sc.Tasks[ti].Name, ph.Records[i], e.pristineOf(sc.Build, sc.Tasks[ti]).rec)
			}
		}
	}
	withDecisions := sc
	withDecisions.Decisions = nil
	for _, ph := range res.Phases {
		withDecisions.Decisions = append(withDecisions.Decisions, ph.Decisions)
	}
	scJSON, _ := json.Marshal(withDecisions)
	mode := ""
	if sc.Real {
		mode = " (real threads, not replay-exact)"
	}
	abandoned := false
	for _, ph := range res.Phases {
		if ph.Err != "" {
			abandoned = true
		}
	}
	for _, rep := range races {
		// After an abandoned phase (watchdog, step budget) its goroutines keep running unscheduled next to whatever
		// the child does afterwards: the premise "one runnable task at a time" is gone and so is the meaning of a report.
		// And a report in which neither access was made by the code under test (or its dependencies) is a defect of
		// this harness, never of the tree: it is not a verdict.
		if abandoned || !(strings.Contains(rep, "asticode/go-asti") || strings.Contains(rep, "/inst/")) {
			continue
		}
		sig := raceSignature(rep)
		vs = append(vs, Violation{Property: "C20", Class: "data-race", Signature: "C20 data-race " + sig + mode,
			Detail: fmt.Sprintf("the race detector reported a data race between tasks that share no data (%d tasks, policy %s):\n%s", len(sc.Tasks), sc.Policy, trunc(rep, 3000)), Scenario: scJSON})
	}
	for pi, ph := range res.Phases {
		if ph.Err != "" {
			// step budget or watchdog: the run was abandoned. Whether the tree under test really fails to
			// terminate is decided separately by running the same tasks one after the other without the
			// scheduler (confirmHang); an abandoned scheduled run alone is inconclusive, never a violation.
			inconclusive = true
			break
		}
		if pi >= len(sc.Phases) {
			break
		}
		kind := "concurrent"
		if len(sc.Phases[pi]) == 1 {
			kind = "solo-again"
		}
		for i, ti := range sc.Phases[pi] {
			pr := e.pristineOf(sc.Build, sc.Tasks[ti])
			if pr.err != nil {
				inconclusive = true
				continue
			}
			got := ph.Records[i]
			n := len(got)
			if len(pr.rec) > n {
				n = len(pr.rec)
			}
			for k := 0; k < n; k++ {
				if pr.unstable[k] {
					continue
				}
				var a, b string
				if k < len(pr.rec) {
					a = pr.rec[k]
				}
				if k < len(got) {
					b = got[k]
				}
				if a != b {
					step := strings.SplitN(a+":", ":", 3)
					vs = append(vs, Violation{Property: "C20", Class: "result-differs",
						Signature: fmt.Sprintf("C20 result-differs %s %s:%s%s", kind, step[0], step[1], mode),
						Detail: fmt.Sprintf("phase %d (%s%s, tasks %v): step %d of task %q returned %q, alone in a fresh process it returns %q",
							pi, kind, mode, sc.Phases[pi], k, sc.Tasks[ti].Name, b, a),
						Scenario: scJSON})
					break
				}
			}
		}
	}
	return vs, inconclusive
}

// runBatch executes scenarios in one child of the right build (race detector on).
func (e *c20Eval) runBatch(build string, scs []C20Scenario) ([]ScenarioResult, map[int][]string, error) {
	bin := c20Bin(e.cfg, build, true)
	resp, stderr, err := runChildProc(e.cfg, bin, c20Req{Kind: "c20-run", Scenarios: scs}, 10*time.Minute)
	if err != nil {
		return nil, nil, err
	}
	return resp.Results, raceReports(stderr), nil
}

// confirm re-runs one scenario alone in a fresh process and judges it.
func (e *c20Eval) confirm(sc C20Scenario) ([]Violation, bool) {
	res, races, err := e.runBatch(sc.Build, []C20Scenario{sc})
	if err != nil || len(res) != 1 {
		return nil, true
	}
	return e.judge(sc, res[0], races[0])
}

// confirmN is confirm with retries. The execution is the same every time (recorded decisions), but the race
// detector itself is not exactly repeatable: it keeps four shadow cells per 8-byte word and evicts pseudo-randomly,
// so a report can be lost (never invented) in one run and appear in the next.
func (e *c20Eval) confirmN(sc C20Scenario, n int) ([]Violation, bool) {
	var inc bool
	for i := 0; i < n; i++ {
		vs, ic := e.confirm(sc)
		if len(vs) > 0 {
			return vs, ic
		}
		inc = ic
	}
	return nil, inc
}

// confirmHang decides whether the tree under test really fails to terminate on this scenario: fresh process, no
// scheduler, tasks strictly one after the other. Every task alone did terminate (its pristine baseline exists).
func (e *c20Eval) confirmHang(sc C20Scenario) *Violation {
	for _, t := range sc.Tasks {
		if pr := e.pristineOf(sc.Build, t); pr.err != nil {
			return nil // not even alone: nothing this scenario adds (and no baseline to talk about)
		}
	}
	timeout := 60
	bin := c20Bin(e.cfg, sc.Build, false)
	seq := sc
	seq.Decisions, seq.Sequential, seq.HangTimeoutS = nil, true, timeout
	_, _, err := runChildProc(e.cfg, bin, c20Req{Kind: "c20-seq", Scenarios: []C20Scenario{seq}}, time.Duration(timeout)*time.Second)
	if err == nil || !strings.Contains(err.Error(), "timed out") {
		return nil
	}
	b, _ := json.Marshal(seq)
	return &Violation{Property: "C20", Class: "no-termination", Signature: "C20 no-termination (sequential, no scheduler)",
		Detail: fmt.Sprintf("every task of this scenario terminates when it runs alone in a fresh process, but the %d tasks run one after the other in one process (no scheduler, no concurrency) did not finish within %d s: a call left something behind that a later call waits for", len(sc.Tasks), timeout),
		Scenario: b}
}

// combine concatenates scenarios into one (tasks renumbered, phases appended).
func combine(scs []C20Scenario) C20Scenario {
	out := C20Scenario{Seed: scs[len(scs)-1].Seed, Policy: scs[len(scs)-1].Policy, Mean: scs[len(scs)-1].Mean, Build: scs[len(scs)-1].Build}
	for _, sc := range scs {
		off := len(out.Tasks)
		out.Tasks = append(out.Tasks, sc.Tasks...)
		for pi, ph := range sc.Phases {
			var np []int
			for _, t := range ph {
				np = append(np, t+off)
			}
			out.Phases = append(out.Phases, np)
			if pi < len(sc.Decisions) {
				out.Decisions = append(out.Decisions, sc.Decisions[pi])
			} else {
				out.Decisions = append(out.Decisions, nil)
			}
		}
	}
	return out
}

// RunC20 is the worker body.
func RunC20(cfg Config) (*ShardResult, error) {
	lim := c20LimitsFor(cfg.Tier)
	pool, err := buildDocPool(cfg)
	if err != nil {
		return nil, err
	}
	res := NewShardResult()
	res.Docs = int64(len(pool.docs))
	root := prng.New(cfg.Seed)
	e := &c20Eval{cfg: cfg, cache: map[string]pristine{}}
	seen := keySet{}
	var mine []C20Scenario
	for j := 0; j < lim.scenarios; j++ {
		if cfg.Shards > 1 && j%cfg.Shards != cfg.Shard {
			continue
		}
		mine = append(mine, genScenario(root, pool, j, lim))
	}
	for _, build := range []string{"inst", "plain"} {
		var list []C20Scenario
		for _, sc := range mine {
			if sc.Build == build {
				list = append(list, sc)
			}
		}
		for b := 0; b < len(list); b += lim.batch {
			end := b + lim.batch
			if end > len(list) {
				end = len(list)
			}
			batch := list[b:end]
			// one P by default (only one task is runnable anyway; per-P caches then behave the same in every run);
			// every second batch gets four, so that code which sizes its own parallelism by GOMAXPROCS is exercised too
			childProcs = 1
			if (b/lim.batch)%2 == 1 {
				childProcs = 4
			}
			results, races, err := e.runBatch(build, batch)
			childProcs = 1
			if err != nil {
				res.Inconclusive += int64(len(batch))
				res.Evaluations += int64(len(batch))
				res.Notes = append(res.Notes, "batch failed: "+trunc(err.Error(), 300))
				continue
			}
			for i, sc := range batch {
				if i >= len(results) {
					break
				}
				r := results[i]
				for pi, ph := range r.Phases {
					res.Evaluations++
					res.SimEvents += int64(ph.Parks)
					res.Note(string(mustJSON(sc.Tasks)), fmt.Sprint(sc.Phases, pi), ph.TraceHash, fmt.Sprint(ph.Records), ph.Err)
					res.Extra["context_switches_inside_calls"] += int64(ph.Switches)
					res.Extra["tasks_run"] += int64(len(ph.Records))
					if pi == 0 && ph.Switches > 0 && seen.add(Key64(ph.TraceHash)) {
						res.Distinct++
					}
					for f, n := range ph.Overlaps {
						res.Probes["overlap:"+f] += int64(n)
					}
				}
				res.Extra["scenarios_"+build]++
				if len(res.Samples) < 2 && cfg.Shard == 0 && len(r.Phases) > 0 {
					res.Samples = append(res.Samples, sampleC20(sc, r))
				}
				vs, inc := e.judge(sc, r, races[i])
				if inc {
					hv := e.confirmHang(sc)
					if hv == nil && i > 0 {
						// not alone: together with everything that ran before it in this child (a resource that leaks a
						// little with every call is exhausted by the history, not by one scenario)
						hv = e.confirmHang(combine(append(append([]C20Scenario{}, batch[:i]...), sc)))
					}
					if hv != nil {
						res.Violations = append(res.Violations, *hv)
						res.Extra["hangs_confirmed_sequentially"]++
					} else {
						res.Inconclusive++
					}
				}
				if len(vs) == 0 {
					continue
				}
				// confirm in a fresh process: alone first, then with everything that ran before it in the batch
				replay := sc
				replay.Decisions = nil
				for _, ph := range r.Phases {
					replay.Decisions = append(replay.Decisions, ph.Decisions)
				}
				tries := 1
				if vs[0].Class == "data-race" {
					tries = 8 // measured on s20-i1 (write after a read by another task): one identical run in four reports it
				}
				cvs, _ := e.confirmN(replay, tries)
				if len(cvs) == 0 && i > 0 {
					var prefix []C20Scenario
					for k := 0; k < i; k++ {
						p := batch[k]
						p.Decisions = nil
						for _, ph := range results[k].Phases {
							p.Decisions = append(p.Decisions, ph.Decisions)
						}
						prefix = append(prefix, p)
					}
					comb := combine(append(prefix, replay))
					cvs, _ = e.confirmN(comb, tries)
				}
				if len(cvs) == 0 {
					res.Extra["unconfirmed_candidates"]++
					res.Notes = append(res.Notes, "candidate not reproduced in a fresh process (dropped): "+vs[0].Signature)
					continue
				}
				res.Violations = append(res.Violations, cvs...)
				if len(res.Violations) > 20 {
					return res, nil
				}
			}
			if len(results) < len(batch) { // the child stopped after a watchdog: the rest of the batch was not run
				res.Inconclusive += int64(len(batch) - len(results))
				res.Evaluations += int64(len(batch) - len(results))
				if res.Inconclusive > 30 {
					res.Notes = append(res.Notes, "too many inconclusive scenarios, worker stopped early")
					return res, nil
				}
			}
		}
	}
	// secondary cross-check, thorough tier only: the same task multisets released simultaneously on real
	// threads under the race detector with GOMAXPROCS in {2,4,16}. Not schedule-controlled, not replay-exact.
	if lim.realRuns > 0 {
		var reals []C20Scenario
		for k, sc := range mine {
			if k >= lim.realRuns {
				break
			}
			r := sc
			r.Real, r.Procs, r.Decisions = true, []int{2, 4, 16}[k%3], nil
			r.Phases = r.Phases[:1]
			reals = append(reals, r)
		}
		for b := 0; b < len(reals); b += lim.batch {
			end := b + lim.batch
			if end > len(reals) {
				end = len(reals)
			}
			for _, build := range []string{"inst", "plain"} {
				var batch []C20Scenario
				for _, sc := range reals[b:end] {
					if sc.Build == build {
						batch = append(batch, sc)
					}
				}
				if len(batch) == 0 {
					continue
				}
				results, races, err := e.runBatch(build, batch)
				if err != nil {
					res.Notes = append(res.Notes, "real-thread batch failed: "+trunc(err.Error(), 200))
					continue
				}
				for i, sc := range batch {
					if i >= len(results) {
						break
					}
					res.Evaluations++
					res.Extra["real_thread_runs"]++
					res.Extra[fmt.Sprintf("real_thread_runs_gomaxprocs_%d", sc.Procs)]++
					vs, _ := e.judge(sc, results[i], races[i])
					if len(vs) > 0 {
						res.Violations = append(res.Violations, vs[0])
					}
				}
			}
		}
	}
	res.Extra["pristine_baselines"] = int64(len(e.cache))
	return res, nil
}

func sampleC20(sc C20Scenario, r ScenarioResult) interface{} {
	type ts struct {
		Name    string   `json:"name"`
		Reader  string   `json:"reader"`
		Bytes   int      `json:"doc_bytes"`
		Rest    int      `json:"read_chunk"`
		Ops     []api.Op `json:"ops"`
		Writers []string `json:"writers"`
	}
	var tasks []ts
	for _, t := range sc.Tasks {
		tasks = append(tasks, ts{t.Name, t.Reader, len(t.Doc), t.Plan.Rest, t.Ops, t.Writers})
	}
	d := r.Phases[0].Decisions
	if len(d) > 16 {
		d = d[:16]
	}
	return map[string]interface{}{"tasks": tasks, "phases": sc.Phases, "policy": sc.Policy, "mean_points_between_parks": sc.Mean, "build": sc.Build,
		"first_decisions": d, "parks_phase0": r.Phases[0].Parks, "switches_phase0": r.Phases[0].Switches}
}

// ---- replay / minimise ------------------------------------------------------------

func replayC20(cfg Config, rf ReplayFile) (*Violation, error) {
	var sc C20Scenario
	if err := json.Unmarshal(rf.Scenario, &sc); err != nil {
		return nil, err
	}
	e := &c20Eval{cfg: cfg, cache: map[string]pristine{}}
	if sc.Sequential {
		return e.confirmHang(sc), nil
	}
	if _, err := os.Stat(c20Bin(cfg, sc.Build, true)); err != nil {
		return nil, fmt.Errorf("the %s race binary is not available: %v", sc.Build, err)
	}
	tries := 1
	if rf.Violation.Class == "data-race" {
		tries = 20 // see confirmN: the detector may lose a report in a given run (measured: up to three runs in four)
	}
	vs, inc := e.confirmN(sc, tries)
	if len(vs) == 0 {
		if inc {
			return nil, fmt.Errorf("replay was inconclusive (child failed or watchdog)")
		}
		return nil, nil
	}
	for _, v := range vs {
		if v.Signature == rf.Violation.Signature {
			return &v, nil
		}
	}
	return &vs[0], nil
}

func minimiseC20(cfg Config, v Violation, budget Deadline) Violation {
	var sc C20Scenario
	if json.Unmarshal(v.Scenario, &sc) != nil || sc.Sequential {
		return v
	}
	e := &c20Eval{cfg: cfg, cache: map[string]pristine{}}
	var best *Violation
	tries := 1
	if v.Class == "data-race" {
		tries = 4
	}
	same := func(s C20Scenario) bool {
		vs, _ := e.confirmN(s, tries)
		for i := range vs {
			if vs[i].Class == v.Class {
				best = &vs[i]
				return true
			}
		}
		return false
	}
	if !same(sc) {
		return v
	}
	cur := *best
	dropTask := func(s C20Scenario, ti int) (C20Scenario, bool) {
		t := s
		t.Tasks = append(append([]TaskProg(nil), s.Tasks[:ti]...), s.Tasks[ti+1:]...)
		t.Phases = nil
		t.Decisions = nil // schedule no longer applies: regenerate from the seed
		for _, ph := range s.Phases {
			var np []int
			for _, x := range ph {
				if x == ti {
					continue
				}
				if x > ti {
					x--
				}
				np = append(np, x)
			}
			if len(np) > 0 {
				t.Phases = append(t.Phases, np)
			}
		}
		return t, len(t.Tasks) > 0 && len(t.Phases) > 0
	}
	// 1. ddmin over phases (whole earlier scenarios of a combined replay go first)
	dropPhases := func(s C20Scenario, lo, hi int) C20Scenario {
		t := s
		t.Phases = append(append([][]int(nil), s.Phases[:lo]...), s.Phases[hi:]...)
		if len(s.Decisions) == len(s.Phases) {
			t.Decisions = append(append([][]sched.Decision(nil), s.Decisions[:lo]...), s.Decisions[hi:]...)
		} else {
			t.Decisions = nil
		}
		return t
	}
	for chunk := (len(sc.Phases) + 1) / 2; chunk >= 1 && len(sc.Phases) > 1 && !budget.Passed(); {
		reduced := false
		for lo := 0; lo < len(sc.Phases) && len(sc.Phases) > 1 && !budget.Passed(); {
			hi := lo + chunk
			if hi > len(sc.Phases) {
				hi = len(sc.Phases)
			}
			if hi-lo >= len(sc.Phases) {
				lo = hi
				continue
			}
			if t := dropPhases(sc, lo, hi); same(t) {
				sc, cur = t, *best
				reduced = true
			} else {
				lo = hi
			}
		}
		if !reduced || chunk > len(sc.Phases) {
			chunk /= 2
		}
	}
	// 2. remove tasks no phase refers to (renumbering), then drop tasks one by one
	used := map[int]bool{}
	for _, ph := range sc.Phases {
		for _, x := range ph {
			used[x] = true
		}
	}
	if len(used) < len(sc.Tasks) && !budget.Passed() {
		t := cloneC20(sc)
		remap := map[int]int{}
		var nt []TaskProg
		for i, tp := range t.Tasks {
			if used[i] {
				remap[i] = len(nt)
				nt = append(nt, tp)
			}
		}
		t.Tasks = nt
		for pi := range t.Phases {
			for k := range t.Phases[pi] {
				t.Phases[pi][k] = remap[t.Phases[pi][k]]
			}
		}
		if same(t) {
			sc, cur = t, *best
		}
	}
	for ti := 0; ti < len(sc.Tasks) && !budget.Passed(); {
		t, ok := dropTask(sc, ti)
		if ok && same(t) {
			sc, cur = t, *best
		} else {
			ti++
		}
	}
	// 3. drop ops and writers
	for ti := range sc.Tasks {
		for oi := 0; oi < len(sc.Tasks[ti].Ops) && !budget.Passed(); {
			t := cloneC20(sc)
			t.Tasks[ti].Ops = append(t.Tasks[ti].Ops[:oi], t.Tasks[ti].Ops[oi+1:]...)
			t.Decisions = nil
			if same(t) {
				sc, cur = t, *best
			} else {
				oi++
			}
		}
		for wi := 0; wi < len(sc.Tasks[ti].Writers) && !budget.Passed(); {
			t := cloneC20(sc)
			t.Tasks[ti].Writers = append(t.Tasks[ti].Writers[:wi], t.Tasks[ti].Writers[wi+1:]...)
			if wi < len(t.Tasks[ti].WFaults) {
				t.Tasks[ti].WFaults = append(t.Tasks[ti].WFaults[:wi], t.Tasks[ti].WFaults[wi+1:]...)
			}
			t.Decisions = nil
			if same(t) {
				sc, cur = t, *best
			} else {
				wi++
			}
		}
	}
	// 4. simplest schedule: no context switch at all (each task runs to completion in turn)
	if !budget.Passed() {
		t := cloneC20(sc)
		t.Decisions = make([][]sched.Decision, len(t.Phases))
		for i := range t.Decisions {
			t.Decisions[i] = []sched.Decision{}
		}
		t.Policy = "sequential"
		if same(t) {
			sc, cur = t, *best
		}
	}
	_ = sc
	return cur
}

func cloneC20(sc C20Scenario) C20Scenario {
	var t C20Scenario
	_ = json.Unmarshal(mustJSON(sc), &t)
	return t
}
