// Package engine holds the per-property checks. Every check enumerates its
// work items deterministically from (seed, tier); items are partitioned over
// worker *processes* by item key, so a worker only ever runs the library on
// one goroutine (C17-C19 must not depend on C20 holding) and the per-worker
// de-duplication of keys is a global one.
package engine

import (
	"encoding/json"
	"fmt"
	"hash/fnv"
	"os"
	"sort"
	"strings"
	"time"
)

// Config is what a worker or parent is asked to do.
type Config struct {
	Prop    string
	Tier    string
	Seed    uint64
	Repo    string // tree under test (for testdata)
	Shard   int
	Shards  int
	Inst    bool   // built against the instrumented copy
	Race    bool   // built with -race
	Self    string // path of this binary (children, fresh processes)
	Scratch string // scratch directory (removed by the caller)
	Sites   string // simgen site table (instrumented build)
	Bins    string // directory with the sibling harness binaries
	// NoMinimise: report the violations as the workers found them (used when the minimising reporter process was
	// brought down by the tree under test: shrunken documents can reach a panic in a library-started goroutine)
	NoMinimise bool
}

// Violation is one counterexample.
type Violation struct {
	Property  string          `json:"property"`
	Class     string          `json:"class"`     // e.g. "result-differs", "silent-truncation", "data-race"
	Signature string          `json:"signature"` // stable identity for known-findings / replay comparison
	Detail    string          `json:"detail"`
	Scenario  json.RawMessage `json:"scenario"`
}

// ShardResult is what one worker reports.
type ShardResult struct {
	Evaluations  int64            `json:"evaluations"`
	Distinct     int64            `json:"distinct_nontrivial"`
	Probes       map[string]int64 `json:"probes"`
	Faults       map[string]int64 `json:"faults_fired"`
	Violations   []Violation      `json:"violations"`
	Samples      []interface{}    `json:"samples"`
	SimEvents    int64            `json:"sim_events"`
	SimTimeNs    int64            `json:"sim_time_ns"`
	Inconclusive int64            `json:"inconclusive"`
	Docs         int64            `json:"docs"`
	Extra        map[string]int64 `json:"extra"`
	Notes        []string         `json:"notes"`
	// Digest is an order- and sharding-independent sum of per-evaluation hashes
	// (item key, outcome, number of simulated events): the determinism self-test
	// compares it across processes, worker counts and GOMAXPROCS values.
	Digest uint64 `json:"digest"`
}

// Note folds one evaluation into the digest.
func (r *ShardResult) Note(parts ...string) { r.Digest += Key64(parts...) }

// NewShardResult allocates the maps.
func NewShardResult() *ShardResult {
	return &ShardResult{Probes: map[string]int64{}, Faults: map[string]int64{}, Extra: map[string]int64{}}
}

// Merge folds o into r.
func (r *ShardResult) Merge(o *ShardResult) {
	r.Evaluations += o.Evaluations
	r.Digest += o.Digest
	r.Distinct += o.Distinct
	r.SimEvents += o.SimEvents
	r.SimTimeNs += o.SimTimeNs
	r.Inconclusive += o.Inconclusive
	if o.Docs > r.Docs {
		r.Docs = o.Docs
	}
	for k, v := range o.Probes {
		r.Probes[k] += v
	}
	for k, v := range o.Faults {
		r.Faults[k] += v
	}
	for k, v := range o.Extra {
		r.Extra[k] += v
	}
	r.Violations = append(r.Violations, o.Violations...)
	if len(r.Samples) < 6 {
		r.Samples = append(r.Samples, o.Samples...)
		if len(r.Samples) > 6 {
			r.Samples = r.Samples[:6]
		}
	}
	r.Notes = append(r.Notes, o.Notes...)
}

// Key64 hashes strings into an item key.
func Key64(parts ...string) uint64 {
	h := fnv.New64a()
	for _, p := range parts {
		h.Write([]byte(p))
		h.Write([]byte{0})
	}
	return h.Sum64()
}

// Mine reports whether the item with this key belongs to this shard.
func (c Config) Mine(key uint64) bool {
	if c.Shards <= 1 {
		return true
	}
	return int(key%uint64(c.Shards)) == c.Shard
}

// keySet counts distinct keys.
type keySet map[uint64]struct{}

func (s keySet) add(k uint64) bool {
	if _, ok := s[k]; ok {
		return false
	}
	s[k] = struct{}{}
	return true
}

// Evidence is the /verif/evidence/<id>.json document.
type Evidence struct {
	PropertyID  string                 `json:"property_id"`
	Tier        string                 `json:"tier"`
	Seed        int64                  `json:"seed"`
	Level       string                 `json:"level"`
	Coverage    map[string]interface{} `json:"coverage"`
	Assumptions []string               `json:"assumptions"`
	WallS       float64                `json:"wall_s"`
	Violations  int                    `json:"violations"`
	Known       []string               `json:"known_findings_seen,omitempty"`
}

// WriteEvidence writes the evidence file atomically.
func WriteEvidence(path string, e *Evidence) error {
	b, err := json.MarshalIndent(e, "", " ")
	if err != nil {
		return err
	}
	tmp := path + ".tmp"
	if err := os.WriteFile(tmp, append(b, '\n'), 0o644); err != nil {
		return err
	}
	return os.Rename(tmp, path)
}

// SortViolations orders violations deterministically.
func SortViolations(vs []Violation) {
	sort.SliceStable(vs, func(i, j int) bool {
		// findings of the schedule-controlled stages first: they replay exactly
		ri, rj := strings.Contains(vs[i].Signature, "not replay-exact"), strings.Contains(vs[j].Signature, "not replay-exact")
		if ri != rj {
			return rj
		}
		if vs[i].Signature != vs[j].Signature {
			return vs[i].Signature < vs[j].Signature
		}
		return len(vs[i].Scenario) < len(vs[j].Scenario)
	})
}

// ReplayFile is what is written under /verif/replays.
type ReplayFile struct {
	Property  string          `json:"property"`
	Engine    string          `json:"engine"`
	Build     string          `json:"build"`
	Seed      uint64          `json:"seed"`
	Tier      string          `json:"tier"`
	Violation ReplayViolation `json:"violation"`
	Scenario  json.RawMessage `json:"scenario"`
}

// ReplayViolation is the expected outcome of a replay.
type ReplayViolation struct {
	Class     string `json:"class"`
	Signature string `json:"signature"`
	Detail    string `json:"detail"`
}

// Deadline is a soft wall-clock budget helper (batch caps, never an oracle).
type Deadline struct{ end time.Time }

// NewDeadline returns a deadline d from now (d<=0: none).
func NewDeadline(d time.Duration) Deadline {
	if d <= 0 {
		return Deadline{}
	}
	return Deadline{time.Now().Add(d)}
}

// Passed reports whether the budget is used up.
func (d Deadline) Passed() bool { return !d.end.IsZero() && time.Now().After(d.end) }

func trunc(s string, n int) string {
	if len(s) <= n {
		return s
	}
	return s[:n] + fmt.Sprintf("…(+%d)", len(s)-n)
}
