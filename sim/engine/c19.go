package engine

import (
	"bytes"
	"encoding/json"
	"fmt"
	"os"
	"os/exec"
	"path/filepath"
	"strings"
	"sort"
	"time"

	astisub "github.com/asticode/go-astisub"

	"verif/sim/api"
	"verif/sim/canon"
	"verif/sim/corpus"
	"verif/sim/hooks"
	"verif/sim/prng"
	"verif/sim/simio"
)

// C19: writers are pure and deterministic.
//
// An episode builds one list object and invokes writers on it in a given
// order, each under an environment the simulator owns: the permutation applied
// at every dynamic map range (instrumented build) and the values the injectable
// clock returns. Oracles: (1) the bytes of every invocation equal the bytes of
// the same writer alone on a fresh build under the baseline environment, except
// the STL date fields when - and only when - the metadata does not supply them,
// which must then show a date the simulated clock returned; (2) the canonical
// rendering of the list (incl. aliasing) is the same before and after.

// Env is the environment of one writer invocation.
type Env struct {
	Perms [][]int `json:"perms,omitempty"` // permutation for the j-th dynamic map range (missing / wrong size: sorted order)
	Clock []int64 `json:"clock,omitempty"` // unix-nano values returned by successive Now() calls (last one repeats)
}

// Invocation is one writer call of an episode.
type Invocation struct {
	Writer string `json:"writer"`
	Env    Env    `json:"env"`
	// SinkFault makes the destination of this call fail: the call is expected to return an error and its
	// bytes are not compared; what is checked is that the list is untouched and that the *following*
	// calls still write what they write alone ("writing the same list twice" after a failed attempt).
	SinkFault *simio.WriteFault `json:"sink_fault,omitempty"`
	// Sink: "" plain io.Writer; "rich": the destination also offers io.StringWriter, io.ByteWriter, io.ReaderFrom
	Sink string `json:"sink,omitempty"`
}

// Episode is one replayable C19 case.
type Episode struct {
	Kind   string       `json:"kind"` // "episode" | "plain-reps"
	Source ListSource   `json:"source"`
	Calls  []Invocation `json:"calls,omitempty"`
	Writer string       `json:"writer,omitempty"` // plain-reps
	Reps   int          `json:"reps,omitempty"`
	Procs  int          `json:"procs,omitempty"`
	// BuildOrder != 0: the list under test is built (document read, transformations applied) while every map range
	// runs in a seeded non-sorted order; the references are built under the default order. What reaches the writer
	// must not depend on the iteration order inside the reader or a transformation either.
	BuildOrder uint64 `json:"build_order,omitempty"`
}

// buildUnderOrder builds the episode's list with the map-order seam driven by a generator seeded with seed.
func buildUnderOrder(src ListSource, seed uint64) *astisub.Subtitles {
	if seed == 0 || !hooks.Instrumented {
		return src.Build()
	}
	r := prng.New(seed)
	hooks.SetMapOrder(func(site, n int) []int {
		if n < 2 {
			return nil
		}
		return r.Perm(n)
	})
	defer hooks.SetMapOrder(nil)
	return src.Build()
}

var (
	c19T0      = time.Date(1970, 1, 1, 12, 0, 0, 0, time.UTC)
	c19Late    = time.Date(2031, 2, 3, 23, 59, 59, 900e6, time.UTC)
	c19Next    = time.Date(2031, 2, 4, 0, 0, 0, 100e6, time.UTC)
	c19YearEnd = time.Date(2029, 12, 31, 23, 59, 59, 999e6, time.UTC)
	c19NewYear = time.Date(2030, 1, 1, 0, 0, 0, 1e6, time.UTC)
)

func clockPlans() [][]int64 {
	n := func(ts ...time.Time) []int64 {
		var o []int64
		for _, t := range ts {
			o = append(o, t.UnixNano())
		}
		return o
	}
	return [][]int64{
		n(c19T0),
		n(c19Late),
		n(c19Late, c19Next),       // across midnight between two consecutive Now calls
		n(c19YearEnd, c19NewYear), // across a year boundary
		n(c19Next, c19Late),       // backwards jump
		n(c19NewYear, c19T0, c19Late),
	}
}

type mapOcc struct {
	Site, N int
}

type callResult struct {
	Class    string // ok | error | panic
	Err      string
	Out      []byte
	Occ      []mapOcc
	ClockGot []int64
	Before   string
	After    string
}

// invoke runs one writer on s under env.
func invoke(s *astisub.Subtitles, writer string, env Env) callResult {
	return invokeSink(s, writer, env, nil)
}

func invokeSink(s *astisub.Subtitles, writer string, env Env, fault *simio.WriteFault, medium ...string) callResult {
	var r callResult
	r.Before = canon.HashWithCapacity(s)
	j := 0
	hooks.SetMapOrder(func(site, n int) []int {
		r.Occ = append(r.Occ, mapOcc{site, n})
		var p []int
		if j < len(env.Perms) && len(env.Perms[j]) == n {
			p = env.Perms[j]
		}
		j++
		return p
	})
	ci := 0
	prevNow := astisub.Now
	astisub.Now = func() time.Time {
		var v int64
		switch {
		case len(env.Clock) == 0:
			v = c19T0.UnixNano()
		case ci < len(env.Clock):
			v = env.Clock[ci]
		default:
			v = env.Clock[len(env.Clock)-1]
		}
		ci++
		r.ClockGot = append(r.ClockGot, v)
		return time.Unix(0, v).UTC()
	}
	wp := simio.WritePlan{Fault: fault}
	if len(medium) > 0 {
		wp.Medium = medium[0]
	}
	w := simio.NewWriter(wp)
	err, p := api.Write(writer, s, w.Wrap())
	astisub.Now = prevNow
	hooks.SetMapOrder(nil)
	r.Out = w.Buf
	switch {
	case p != "":
		r.Class, r.Err = "panic", p
	case err != nil:
		r.Class, r.Err = "error", err.Error()
	default:
		r.Class = "ok"
	}
	r.After = canon.HashWithCapacity(s)
	return r
}

// stlDateFields returns the output with the clock-fed STL date fields masked,
// and a reason when such a field does not show a date the simulated clock returned.
func stlDateFields(writer string, s *astisub.Subtitles, out []byte, clockGot []int64) (masked []byte, why string) {
	if writer != "stl" || len(out) < 236 {
		return out, ""
	}
	masked = append([]byte(nil), out...)
	check := func(lo, hi int, supplied bool, name string) {
		if supplied {
			return // must not vary with the clock at all: compared unmasked
		}
		got := string(out[lo:hi])
		ok := false
		for _, v := range clockGot {
			if time.Unix(0, v).UTC().Format("060102") == got {
				ok = true
			}
		}
		if !ok && why == "" {
			why = fmt.Sprintf("STL %s date field is %q, which is not the date of any value the injectable clock returned during the write (%d call(s))", name, got, len(clockGot))
		}
		for i := lo; i < hi; i++ {
			masked[i] = '#'
		}
	}
	m := s.Metadata
	check(224, 230, m != nil && m.STLCreationDate != nil, "creation")
	check(230, 236, m != nil && m.STLRevisionDate != nil, "revision")
	return masked, why
}

type refKey struct{ writer string }

// CheckEpisode evaluates one episode; returns the first violation.
func CheckEpisode(ep Episode) (*Violation, []callResult) {
	mk := func(class, writer, why string) *Violation {
		b, _ := json.Marshal(ep)
		return &Violation{Property: "C19", Class: class, Signature: fmt.Sprintf("C19 %s %s", writer, class),
			Detail: fmt.Sprintf("list=%s calls=%s: %s", ep.Source.Name(), trunc(callsLabel(ep.Calls), 300), why), Scenario: b}
	}
	// references: each writer alone on a fresh build under the baseline environment
	refs := map[string]callResult{}
	for _, c := range ep.Calls {
		if _, ok := refs[c.Writer]; ok {
			continue
		}
		s := ep.Source.Build()
		if s == nil {
			return nil, nil
		}
		refs[c.Writer] = invoke(s, c.Writer, Env{})
	}
	s := buildUnderOrder(ep.Source, ep.BuildOrder)
	if s == nil {
		if ep.BuildOrder != 0 && len(ep.Calls) > 0 {
			// the list can be built under the default order (the references exist) but not under this one
			return mk("nondeterministic-outcome", ep.Calls[0].Writer, "reading the document / applying the transformations failed or panicked under this map-iteration order and succeeds under the default one"), nil
		}
		return nil, nil
	}
	var results []callResult
	for i, c := range ep.Calls {
		r := invokeSink(s, c.Writer, c.Env, c.SinkFault, c.Sink)
		results = append(results, r)
		ref := refs[c.Writer]
		if c.SinkFault != nil {
			if r.Before != r.After {
				return mk("input-modified", c.Writer, fmt.Sprintf("call #%d (%s, failing destination) changed the cue list it was given", i, c.Writer)), results
			}
			// whether the error is reported is C18's business; but a call that claims success (a transient fault it
			// recovered from) must have handed over exactly the bytes it hands over without the fault
			if r.Class == "ok" && ref.Class == "ok" {
				mo, _ := stlDateFields(c.Writer, s, r.Out, r.ClockGot)
				mr, _ := stlDateFields(c.Writer, s, ref.Out, ref.ClockGot)
				if !bytes.Equal(mo, mr) {
					return mk("nondeterministic-output", c.Writer, fmt.Sprintf("call #%d (%s) returned nil although its destination failed once (%+v) and handed over %d bytes that differ from the %d bytes written without the fault", i, c.Writer, *c.SinkFault, len(mo), len(mr))), results
				}
			}
			continue
		}
		if r.Before != r.After {
			return mk("input-modified", c.Writer, fmt.Sprintf("call #%d (%s) changed the cue list it was given (canonical rendering incl. aliasing and the spare capacity of its slices differs before/after)", i, c.Writer)), results
		}
		if r.Class != ref.Class {
			return mk("nondeterministic-outcome", c.Writer, fmt.Sprintf("call #%d (%s) ended in %s, alone under the baseline environment in %s (%s / %s)", i, c.Writer, r.Class, ref.Class, trunc(r.Err, 120), trunc(ref.Err, 120))), results
		}
		if r.Class != "ok" {
			continue // fails identically every time: deterministic
		}
		mo, why := stlDateFields(c.Writer, s, r.Out, r.ClockGot)
		if why != "" {
			return mk("clock-misuse", c.Writer, why), results
		}
		mr, _ := stlDateFields(c.Writer, s, ref.Out, ref.ClockGot)
		if !bytes.Equal(mo, mr) {
			at := 0
			for at < len(mo) && at < len(mr) && mo[at] == mr[at] {
				at++
			}
			return mk("nondeterministic-output", c.Writer, fmt.Sprintf("call #%d (%s) wrote %d bytes that differ from the %d bytes written alone under the baseline environment, first at offset %d: %q vs %q",
				i, c.Writer, len(mo), len(mr), at, ctx(mo, at), ctx(mr, at))), results
		}
	}
	return nil, results
}

func ctx(b []byte, at int) string {
	lo, hi := at-20, at+30
	if lo < 0 {
		lo = 0
	}
	if hi > len(b) {
		hi = len(b)
	}
	return string(b[lo:hi])
}

func callsLabel(cs []Invocation) string {
	b, _ := json.Marshal(cs)
	return string(b)
}

// permsOf enumerates the permutations to try for a map of n keys.
func permsOf(n int, r *prng.R) [][]int {
	if n < 2 {
		return nil
	}
	if n <= 4 {
		var out [][]int
		var rec func(cur []int, used []bool)
		rec = func(cur []int, used []bool) {
			if len(cur) == n {
				out = append(out, append([]int(nil), cur...))
				return
			}
			for i := 0; i < n; i++ {
				if !used[i] {
					used[i] = true
					rec(append(cur, i), used)
					used[i] = false
				}
			}
		}
		rec(nil, make([]bool, n))
		return out[1:] // identity is the baseline
	}
	var out [][]int
	rev := make([]int, n)
	for i := range rev {
		rev[i] = n - 1 - i
	}
	out = append(out, rev)
	// rotations: what the Go runtime does for small maps (all of them up to 8 keys, a handful beyond)
	ks := []int{}
	for k := 1; k < n && k < 8; k++ {
		ks = append(ks, k)
	}
	if n > 8 {
		ks = append(ks, n/2, n-1)
	}
	for _, k := range ks {
		rot := make([]int, n)
		for i := range rot {
			rot[i] = (i + k) % n
		}
		out = append(out, rot)
	}
	for i := 0; i < 6; i++ {
		out = append(out, r.Perm(n))
	}
	return out
}

type c19Limits struct {
	lists     int
	docLists  bool
	joint     int // jointly sampled map-order plans per (list, writer)
	orders    int // writer-order episodes per list
	plainReps int
	plainProc int
}

func c19LimitsFor(tier string) c19Limits {
	if tier == "thorough" {
		return c19Limits{lists: 10000, docLists: true, joint: 24, orders: 8, plainReps: 50, plainProc: 3}
	}
	if tier == "smoke" { // determinism self-test only
		return c19Limits{lists: 25, docLists: false, joint: 3, orders: 2, plainReps: 5, plainProc: 2}
	}
	return c19Limits{lists: 220, docLists: true, joint: 6, orders: 3, plainReps: 50, plainProc: 3}
}

func c19Sources(cfg Config, lim c19Limits) ([]ListSource, error) {
	root := prng.New(cfg.Seed)
	var srcs []ListSource
	for i := 0; i < lim.lists; i++ {
		lr := root.Derive("c19-list", i)
		l := corpus.GenList(lr, i)
		src := ListSource{Spec: &l}
		if lr.Bool(0.3) { // a list that went through a pipeline of transformations first
			src.Ops = genOps(lr)
			// Fragment is quadratic in (duration / period): a cue of 100+ hours cut every second never finishes.
			// That is an input the workload must not produce (C08/C10 territory), not something C19 is about.
			extreme := false
			for _, it := range l.Items {
				if it.StartMs < 0 || it.EndMs > 36000000 || it.StartMs > 36000000 {
					extreme = true
				}
			}
			if extreme {
				var ops []api.Op
				for _, op := range src.Ops {
					if op.Name != "fragment" && op.Name != "forceduration" {
						ops = append(ops, op)
					}
				}
				src.Ops = ops
			}
		}
		srcs = append(srcs, src)
	}
	// edge sizes: 0 cues, 1 cue, more than 256 styles
	for i, dims := range [][3]int{{6, 4, 0}, {6, 4, 1}, {300, 8, 12}} {
		l := corpus.GenListSized(root.Derive("c19-edge", i), 200000+i, dims[0], dims[1], dims[2])
		if dims[2] <= 1 {
			if len(l.Items) > dims[2] {
				l.Items = l.Items[:dims[2]]
			}
		}
		srcs = append(srcs, ListSource{Spec: &l})
	}
	// one very long list (more than 512 cues): size thresholds in writers
	{
		d := corpus.Large("srt", root.Derive("c19-verylong", 0), 60000)
		srcs = append(srcs, ListSource{Doc: d.Name, Reader: "srt", Data: d.Data})
	}
	// a few big lists: hundreds of cues, dozens of styles and regions (threshold-triggered code paths)
	for i := 0; i < lim.lists/100+2; i++ {
		l := corpus.GenListSized(root.Derive("c19-biglist", i), 100000+i, 40, 25, 300)
		srcs = append(srcs, ListSource{Spec: &l})
	}
	// plain lists just above the sizes at which a writer might switch strategy (batches, worker pools, pre-sized
	// buffers): what a threshold-triggered path writes must be as deterministic as the ordinary one
	many := []int{257, 1025, 4097}
	if cfg.Tier == "thorough" {
		many = append(many, 10001, 65537, 100001)
	}
	if cfg.Tier == "smoke" {
		many = []int{257}
	}
	for _, n := range many {
		srcs = append(srcs, ListSource{Many: n})
	}
	if lim.docLists {
		docs, err := corpus.LoadTestdata(cfg.Repo)
		if err != nil {
			return nil, err
		}
		docs = append(docs, corpus.Generated(root, 4)...)
		for _, d := range docs {
			if len(d.Data) > 20000 {
				continue
			}
			srcs = append(srcs, ListSource{Doc: d.Name, Reader: corpus.ReaderConfigs(d.Format)[0], Data: d.Data})
		}
	}
	return srcs, nil
}

// RunC19 is the worker body.
func RunC19(cfg Config) (*ShardResult, error) {
	lim := c19LimitsFor(cfg.Tier)
	srcs, err := c19Sources(cfg, lim)
	if err != nil {
		return nil, err
	}
	res := NewShardResult()
	res.Docs = int64(len(srcs))
	res.Extra["instrumented_build"] = 0
	if hooks.Instrumented {
		res.Extra["instrumented_build"] = 1
	}
	seen := keySet{}
	root := prng.New(cfg.Seed)
	clocks := clockPlans()
	var mine []ListSource
	run := func(ep Episode) bool {
		v, results := CheckEpisode(ep)
		nontrivial := false
		epKey := string(mustJSON(ep))
		for i, r := range results {
			res.Evaluations++
			res.SimEvents += int64(len(r.Occ) + len(r.ClockGot))
			res.Note(epKey, fmt.Sprint(i), r.Class, canon.HashBytes(r.Out), fmt.Sprint(r.Occ, r.ClockGot), r.After)
			for _, o := range r.Occ {
				if o.N >= 2 {
					nontrivial = true
					res.Probes["map_range_with_2plus_keys"]++
				}
			}
			if len(r.ClockGot) > 0 {
				nontrivial = true
				res.Probes["clock_read"]++
			}
			if i > 0 {
				nontrivial = true
				res.Probes["writer_after_other_writer"]++
			}
			if i < len(ep.Calls) && ep.Calls[i].SinkFault != nil {
				res.Probes["write_into_failing_destination_first"]++
			}
			if r.Class != "ok" {
				res.Probes["writer_fails_deterministically"]++
			}
		}
		if nontrivial && seen.add(Key64(string(mustJSON(ep)))) {
			res.Distinct++
		}
		if len(res.Samples) < 3 && cfg.Shard == 0 && nontrivial && len(ep.Calls) > 0 && len(ep.Calls[0].Env.Perms) > 0 {
			res.Samples = append(res.Samples, map[string]interface{}{"list": ep.Source.Name(), "calls": ep.Calls})
		}
		if v != nil {
			res.Violations = append(res.Violations, *v)
		}
		return len(res.Violations) > 40
	}
	for si, src := range srcs {
		sh := canon.HashBytes(mustJSON(src))
		if !cfg.Mine(Key64("c19src", sh)) {
			continue
		}
		if src.Build() == nil {
			continue
		}
		mine = append(mine, src)
		sr := root.Derive("c19-"+src.Name(), si)
		occByWriter := map[string][]mapOcc{}
		for _, w := range api.WriterFormats {
			// baseline discovers the dynamic map ranges of this (list, writer)
			base := invoke(src.Build(), w, Env{})
			occByWriter[w] = base.Occ
			// (a) vary one occurrence at a time, every permutation
			for j, o := range base.Occ {
				for _, p := range permsOf(o.N, sr) {
					perms := make([][]int, j+1)
					perms[j] = p
					if run(Episode{Kind: "episode", Source: src, Calls: []Invocation{{Writer: w, Env: Env{Perms: perms}}}}) {
						return res, nil
					}
				}
			}
			// (b) vary all occurrences jointly, seeded; together with a clock plan
			for k := 0; k < lim.joint; k++ {
				perms := make([][]int, len(base.Occ))
				for j, o := range base.Occ {
					if o.N >= 2 {
						perms[j] = sr.Perm(o.N)
					}
				}
				if run(Episode{Kind: "episode", Source: src, Calls: []Invocation{{Writer: w, Env: Env{Perms: perms, Clock: clocks[sr.Intn(len(clocks))]}}}}) {
					return res, nil
				}
			}
			// (c) clock plans (the STL writer is the only reader of the clock on the pinned tree, but every writer is checked)
			for _, c := range clocks {
				if w != "stl" && !sr.Bool(0.34) {
					continue
				}
				if run(Episode{Kind: "episode", Source: src, Calls: []Invocation{{Writer: w, Env: Env{Clock: c}}, {Writer: w, Env: Env{Clock: c}, Sink: "rich"}}}) {
					return res, nil
				}
			}
		}
		// (d) all writers on the same list object in seeded orders, each under a seeded environment
		for k := 0; k < lim.orders; k++ {
			var calls []Invocation
			for _, wi := range sr.Perm(len(api.WriterFormats)) {
				env := Env{Clock: clocks[sr.Intn(len(clocks))]}
				for _, o := range occByWriter[api.WriterFormats[wi]] {
					if o.N >= 2 && sr.Bool(0.7) {
						env.Perms = append(env.Perms, sr.Perm(o.N))
					} else {
						env.Perms = append(env.Perms, nil)
					}
				}
				if sr.Bool(0.3) { // a failed attempt first, then the same writer again
					calls = append(calls, Invocation{Writer: api.WriterFormats[wi], Env: env,
						SinkFault: &simio.WriteFault{Offset: sr.PickInt(0, 1, 100, 1024, 1100, 1500), Kind: simio.WriteFaultKinds[sr.Intn(len(simio.WriteFaultKinds))], Short: sr.Bool(0.5), Transient: sr.Bool(0.5)}})
				}
				calls = append(calls, Invocation{Writer: api.WriterFormats[wi], Env: env, Sink: sr.Pick("", "", "rich")})
			}
			if sr.Bool(0.5) { // repetition of one writer at the end
				calls = append(calls, calls[sr.Intn(len(calls))])
			}
			if run(Episode{Kind: "episode", Source: src, Calls: calls}) {
				return res, nil
			}
		}
	}
	// (d2) the list itself built under seeded map orders (documents read by the library, transformation pipelines)
	for _, src := range mine {
		if src.Spec != nil && len(src.Ops) == 0 || src.Many > 0 {
			continue // built in code without any library call
		}
		for k := 1; k <= 4; k++ {
			var calls []Invocation
			for _, w := range api.WriterFormats {
				calls = append(calls, Invocation{Writer: w})
			}
			res.Probes["list_built_under_seeded_map_order"]++
			if run(Episode{Kind: "episode", Source: src, Calls: calls, BuildOrder: Key64("build-order", fmt.Sprint(cfg.Seed), canon.HashBytes(mustJSON(src)), fmt.Sprint(k)) | 1}) {
				return res, nil
			}
		}
	}
	// (e) plain build, native map randomisation: every (list, writer) written reps times in each of procs fresh processes
	if err := c19PlainStage(cfg, lim, mine, res); err != nil {
		res.Notes = append(res.Notes, "plain-build repetition stage skipped: "+err.Error())
	}
	// (f) the command line tool, repeated (real processes)
	for _, name := range c19CLICases {
		if !cfg.Mine(Key64("c19-cli", name)) {
			continue
		}
		res.Evaluations++
		res.Extra["cli_repetition_cases_real_os"]++
		if v := c19CLIOne(cfg, name); v != nil {
			res.Violations = append(res.Violations, *v)
		}
	}
	return res, nil
}

// plainReq / plainResp are the child-process protocol of the plain stage.
type plainReq struct {
	Kind    string       `json:"kind"`
	Sources []ListSource `json:"sources"`
	Writers []string     `json:"writers"`
	Reps    int          `json:"reps"`
}

type plainResp struct {
	// Hashes[i][w] = sorted distinct "class:hash" values over the repetitions
	Hashes [][][]string `json:"hashes"`
}

func plainChild(req plainReq) plainResp {
	var resp plainResp
	astisub.Now = func() time.Time { return c19T0 }
	for _, src := range req.Sources {
		var per [][]string
		for _, w := range req.Writers {
			set := map[string]bool{}
			for i := 0; i < req.Reps; i++ {
				s := src.Build()
				if s == nil {
					set["nolist"] = true
					break
				}
				sw := simio.NewWriter(simio.WritePlan{})
				err, p := api.Write(w, s, sw.Wrap())
				switch {
				case p != "":
					set["panic"] = true
				case err != nil:
					set["error"] = true
				default:
					set["ok:"+canon.HashBytes(sw.Buf)] = true
				}
			}
			var l []string
			for k := range set {
				l = append(l, k)
			}
			sort.Strings(l)
			per = append(per, l)
		}
		resp.Hashes = append(resp.Hashes, per)
	}
	return resp
}

func runPlainChildren(cfg Config, req plainReq, procs int) ([]plainResp, error) {
	return runChildren(cfg, filepath.Join(cfg.Bins, "simcheck.plain"), req, procs)
}

func runChildren(cfg Config, bin string, req plainReq, procs int) ([]plainResp, error) {
	if _, err := os.Stat(bin); err != nil {
		return nil, fmt.Errorf("plain binary not available: %v", err)
	}
	dir, err := os.MkdirTemp(cfg.Scratch, "c19plain-")
	if err != nil {
		return nil, err
	}
	defer os.RemoveAll(dir)
	reqPath := filepath.Join(dir, "req.json")
	if err := os.WriteFile(reqPath, mustJSON(req), 0o644); err != nil {
		return nil, err
	}
	var out []plainResp
	// "in the same process or in another": the other processes also differ in what a process inherits from its
	// environment (time zone, locale); when the zone database is missing the TZ values simply mean UTC
	envs := [][]string{{"TZ=UTC", "GOMAXPROCS=1", "LANG=en_US.UTF-8", "LC_ALL=en_US.UTF-8", "LC_MESSAGES=en_US.UTF-8", "LANGUAGE=en"},
		{"TZ=Pacific/Kiritimati", "LANG=fr_FR.UTF-8", "LC_ALL=fr_FR.UTF-8", "LC_MESSAGES=fr_FR.UTF-8", "LANGUAGE=fr", "GOMAXPROCS=8"},
		{"TZ=Pacific/Honolulu", "LANG=ja_JP.UTF-8", "LC_ALL=ja_JP.UTF-8", "LC_MESSAGES=ja_JP.UTF-8", "LANGUAGE=ja", "GOMAXPROCS=3", "HOME=/nonexistent", "TMPDIR=" + dir, "USER=nobody", "HOSTNAME=elsewhere"}}
	dirs := []string{"", "/", dir} // current directory
	for p := 0; p < procs; p++ {
		cmd := exec.Command(bin, "-mode", "child", "-child", reqPath)
		cmd.Env = append(os.Environ(), envs[p%len(envs)]...)
		cmd.Dir = dirs[p%len(dirs)]
		cmd.Stderr = os.Stderr
		b, err := cmd.Output()
		if err != nil {
			return nil, fmt.Errorf("plain child: %v", err)
		}
		var r plainResp
		if err := json.Unmarshal(b, &r); err != nil {
			return nil, err
		}
		out = append(out, r)
	}
	return out, nil
}

func plainVerdict(resps []plainResp, i, w int) (distinct []string) {
	set := map[string]bool{}
	for _, r := range resps {
		if i < len(r.Hashes) && w < len(r.Hashes[i]) {
			for _, h := range r.Hashes[i][w] {
				set[h] = true
			}
		}
	}
	for k := range set {
		distinct = append(distinct, k)
	}
	sort.Strings(distinct)
	return
}

// c19FirstWriteStage compares, for a sample of (list, writer) pairs, the bytes written as the very first
// library call of a fresh process with the bytes written here, late in a worker that has already
// written hundreds of other lists: a memo, cache or latch keyed too coarsely shows as a difference.
func c19FirstWriteStage(cfg Config, srcs []ListSource, res *ShardResult) {
	for _, src := range srcs {
		sh := canon.HashBytes(mustJSON(src))
		for _, w := range api.WriterFormats {
			if Key64("first-write", sh, w)%4 != 0 {
				continue
			}
			if !c19FirstWriteOne(cfg, src, w, res) {
				return
			}
		}
	}
}

// c19FirstWriteOne handles one pair; false = child trouble (stage abandoned).
func c19FirstWriteOne(cfg Config, src ListSource, w string, res *ShardResult) bool {
	{
		{
			here := invoke(src.Build(), w, Env{})
			hereKey := here.Class
			if here.Class == "ok" {
				hereKey = "ok:" + canon.HashBytes(here.Out)
			}
			req := plainReq{Kind: "c19-plain", Sources: []ListSource{src}, Writers: []string{w}, Reps: 1}
			resps, err := runChildren(cfg, cfg.Self, req, 1)
			if err != nil || len(resps) != 1 || len(resps[0].Hashes) != 1 || len(resps[0].Hashes[0]) != 1 || len(resps[0].Hashes[0][0]) != 1 {
				res.Notes = append(res.Notes, "first-write stage: child failed")
				return false
			}
			res.Evaluations++
			res.Extra["first_write_in_fresh_process"]++
			fresh := resps[0].Hashes[0][0][0]
			if fresh != hereKey {
				ep := Episode{Kind: "first-write", Source: src, Writer: w}
				b, _ := json.Marshal(ep)
				res.Violations = append(res.Violations, Violation{Property: "C19", Class: "depends-on-process-history",
					Signature: fmt.Sprintf("C19 %s depends-on-process-history", w),
					Detail:    fmt.Sprintf("list=%s writer=%s: written as the first call of a fresh process -> %s; written in a process that wrote other lists before -> %s", src.Name(), w, fresh, hereKey),
					Scenario:  b})
			}
		}
	}
	return true
}

// c19FileStage exercises the file helper Subtitles.Write (real OS, not simulated): the file a list is written
// to must hold the same bytes whether the path is fresh, already holds a longer file, or is written twice.
func c19FileStage(cfg Config, srcs []ListSource, res *ShardResult) {
	dir, err := os.MkdirTemp(cfg.Scratch, "c19files-")
	if err != nil {
		res.Notes = append(res.Notes, "file stage skipped: "+err.Error())
		return
	}
	defer os.RemoveAll(dir)
	junk := bytes.Repeat([]byte("1\n00:00:01,000 --> 00:00:02,000\nold content of the destination\n\n"), 2000)
	n := 0
	for _, src := range srcs {
		sh := canon.HashBytes(mustJSON(src))
		for _, ext := range []string{"srt", "vtt", "ssa", "ass", "stl", "ttml"} {
			if Key64("file-stage", sh, ext)%6 != 0 {
				continue
			}
			v := c19FileOne(dir, src, ext, junk, n)
			n++
			res.Evaluations++
			res.Extra["file_helper_writes_real_os"]++
			if v != nil {
				res.Violations = append(res.Violations, *v)
			}
		}
	}
}

func c19FileOne(dir string, src ListSource, ext string, junk []byte, n int) *Violation {
	astisub.Now = func() time.Time { return c19T0 }
	write := func(path string) ([]byte, string) {
		s := src.Build()
		if s == nil {
			return nil, "nolist"
		}
		var werr error
		var pn string
		func() {
			defer func() {
				if p := recover(); p != nil {
					pn = fmt.Sprint(p)
				}
			}()
			werr = s.Write(path)
		}()
		if pn != "" {
			return nil, "panic"
		}
		if werr != nil {
			return nil, "error"
		}
		b, rerr := os.ReadFile(path)
		if rerr != nil {
			return nil, "unreadable"
		}
		return b, "ok"
	}
	fresh := filepath.Join(dir, fmt.Sprintf("fresh-%d.%s", n, ext))
	b1, c1 := write(fresh)
	if c1 != "ok" {
		return nil // a writer that fails on this list is deterministic failure, nothing to compare
	}
	existing := filepath.Join(dir, fmt.Sprintf("existing-%d.%s", n, ext))
	if err := os.WriteFile(existing, junk, 0o644); err != nil {
		return nil
	}
	b2, c2 := write(existing)
	b3, c3 := write(fresh) // the same path a second time
	os.Remove(fresh)
	os.Remove(existing)
	// the helper must leave the list alone as well: the same list object through Write and then through the other
	// extension of the same family (.ssa / .ass) or the plain writer must give what a fresh list gives
	var why string
	if s := src.Build(); s != nil {
		before := canon.HashWithCapacity(s)
		p1 := filepath.Join(dir, fmt.Sprintf("same-%d.%s", n, ext))
		werr := func() (err error) {
			defer func() {
				if p := recover(); p != nil {
					err = fmt.Errorf("panic: %v", p)
				}
			}()
			return s.Write(p1)
		}()
		os.Remove(p1)
		if werr == nil && canon.HashWithCapacity(s) != before {
			why = fmt.Sprintf("Subtitles.Write(x.%s) changed the cue list it was called on (canonical rendering incl. metadata differs before/after)", ext)
		}
	}
	switch {
	case why != "":
	case c2 != "ok" || !bytes.Equal(b1, b2):
		why = fmt.Sprintf("written over an existing, longer file the destination holds %d bytes (%s), at a fresh path %d bytes", len(b2), c2, len(b1))
	case c3 != "ok" || !bytes.Equal(b1, b3):
		why = fmt.Sprintf("written a second time to the same path the destination holds %d bytes (%s), the first time %d bytes", len(b3), c3, len(b1))
	default:
		return nil
	}
	ep := Episode{Kind: "file", Source: src, Writer: ext}
	b, _ := json.Marshal(ep)
	return &Violation{Property: "C19", Class: "file-depends-on-destination-history", Signature: fmt.Sprintf("C19 Write(.%s) file-depends-on-destination-history", ext),
		Detail: fmt.Sprintf("list=%s Subtitles.Write(x.%s): %s", src.Name(), ext, why), Scenario: b}
}

func c19PlainStage(cfg Config, lim c19Limits, srcs []ListSource, res *ShardResult) error {
	if len(srcs) == 0 {
		return nil
	}
	c19FileStage(cfg, srcs, res)
	c19FirstWriteStage(cfg, srcs, res)

	// long lists are written fewer times (the cost of a write grows with the list, the number of map orders does not)
	var small, big []ListSource
	for _, src := range srcs {
		if s := src.Build(); s != nil && len(s.Items) > 60 {
			big = append(big, src)
		} else {
			small = append(small, src)
		}
	}
	if err := c19PlainGroup(cfg, lim, small, lim.plainReps, res); err != nil {
		return err
	}
	bigReps := lim.plainReps / 8
	if bigReps < 3 {
		bigReps = 3
	}
	return c19PlainGroup(cfg, lim, big, bigReps, res)
}

func c19PlainGroup(cfg Config, lim c19Limits, srcs []ListSource, reps int, res *ShardResult) error {
	if len(srcs) == 0 {
		return nil
	}
	req := plainReq{Kind: "c19-plain", Sources: srcs, Writers: api.WriterFormats, Reps: reps}
	resps, err := runPlainChildren(cfg, req, lim.plainProc)
	if err != nil {
		return err
	}
	for i, src := range srcs {
		for w, writer := range api.WriterFormats {
			d := plainVerdict(resps, i, w)
			res.Evaluations += int64(reps * lim.plainProc)
			res.Extra["plain_build_writes"] += int64(reps * lim.plainProc)
			if len(d) > 1 {
				ep := Episode{Kind: "plain-reps", Source: src, Writer: writer, Reps: reps, Procs: lim.plainProc}
				b, _ := json.Marshal(ep)
				res.Violations = append(res.Violations, Violation{Property: "C19", Class: "nondeterministic-output",
					Signature: fmt.Sprintf("C19 %s nondeterministic-output", writer),
					Detail:    fmt.Sprintf("list=%s writer=%s: %d distinct outputs over %d writes in each of %d fresh processes of the plain build (native map order): %v", src.Name(), writer, len(d), reps, lim.plainProc, d),
					Scenario:  b})
			}
		}
	}
	return nil
}

// RunChild serves a child-process request and prints the response on stdout.
func RunChild(cfg Config, reqPath string) int {
	b, err := os.ReadFile(reqPath)
	if err != nil {
		fmt.Fprintln(os.Stderr, "child:", err)
		return 2
	}
	var head struct {
		Kind string `json:"kind"`
	}
	if err := json.Unmarshal(b, &head); err != nil {
		fmt.Fprintln(os.Stderr, "child:", err)
		return 2
	}
	switch head.Kind {
	case "c19-plain":
		var req plainReq
		if err := json.Unmarshal(b, &req); err != nil {
			fmt.Fprintln(os.Stderr, "child:", err)
			return 2
		}
		os.Stdout.Write(mustJSON(plainChild(req)))
		return 0
	case "c20-solo", "c20-run", "c20-seq":
		return c20Child(cfg, head.Kind, b)
	}
	fmt.Fprintln(os.Stderr, "child: unknown request kind", head.Kind)
	return 2
}

func replayC19(cfg Config, rf ReplayFile) (*Violation, error) {
	var ep Episode
	if err := json.Unmarshal(rf.Scenario, &ep); err != nil {
		return nil, err
	}
	return checkC19Any(cfg, ep), nil
}

// c19CLIOne runs one subcommand of the repository's tool (built from the tree under test) several times on the same
// input files: same inputs, same file - "in the same process or in another". Real OS and real processes.
func c19CLIOne(cfg Config, name string) *Violation {
	cli := filepath.Join(cfg.Bins, "astisub-cli")
	if _, err := os.Stat(cli); err != nil || cfg.Bins == "" {
		return nil
	}
	dir, err := os.MkdirTemp(cfg.Scratch, "c19cli-")
	if err != nil {
		return nil
	}
	defer os.RemoveAll(dir)
	// three inputs sharing their time boundaries (ties when merged) and their style ids, the middle one much larger
	small := func(tag string) []byte {
		return []byte("WEBVTT\n\nSTYLE\n::cue(." + tag + ") { color: red; }\n\n00:00:01.000 --> 00:00:02.000\n" + tag + " one\n\n00:00:03.000 --> 00:00:04.000\n" + tag + " two\n\n00:00:05.000 --> 00:00:06.000\n" + tag + " three\n")
	}
	var big bytes.Buffer
	big.WriteString("WEBVTT\n\n")
	for i := 0; i < 6000; i++ {
		fmt.Fprintf(&big, "00:%02d:%02d.000 --> 00:%02d:%02d.900\nbig %d\n\n", i/60%60, i%60, i/60%60, i%60, i)
	}
	a, b, c := filepath.Join(dir, "a.vtt"), filepath.Join(dir, "b.vtt"), filepath.Join(dir, "c.vtt")
	_ = os.WriteFile(a, small("a"), 0o644)
	_ = os.WriteFile(b, big.Bytes(), 0o644)
	_ = os.WriteFile(c, small("c"), 0o644)
	// three more inputs of the same size with the same cue times and different texts (whichever is ready first)
	var same [3]string
	for k := range same {
		var m bytes.Buffer
		m.WriteString("WEBVTT\n\n")
		for i := 0; i < 1500; i++ {
			fmt.Fprintf(&m, "00:%02d:%02d.000 --> 00:%02d:%02d.900\ninput %d cue %d\n\n", i/60%60, i%60, i/60%60, i%60, k, i)
		}
		same[k] = filepath.Join(dir, fmt.Sprintf("same%d.vtt", k))
		_ = os.WriteFile(same[k], m.Bytes(), 0o644)
	}
	args := map[string][]string{
		"merge3":   {"merge", "-i", a, "-i", b, "-i", c},
		"merge3r":  {"merge", "-i", b, "-i", a, "-i", c},
		"merge2":   {"merge", "-i", a, "-i", c},
		"merge4":   {"merge", "-i", a, "-i", same[0], "-i", same[1], "-i", same[2]},
		"convert":  {"convert", "-i", a},
		"optimize": {"optimize", "-i", a},
		"fragment": {"fragment", "-f", "700ms", "-i", a},
		"sync":     {"sync", "-s", "1s", "-i", a},
	}[name]
	if args == nil {
		return nil
	}
	var first []byte
	for k := 0; k < 10; k++ {
		for _, ext := range []string{"ttml", "ssa"} {
			if ext == "ssa" && k > 0 {
				continue
			}
			out := filepath.Join(dir, fmt.Sprintf("out-%d.%s", k, ext))
			cmd := exec.Command(cli, append(append([]string{}, args...), "-o", out)...)
			cmd.Env = append(os.Environ(), fmt.Sprintf("GOMAXPROCS=%d", []int{1, 2, 4, 16}[k%4]))
			if outb, err := cmd.CombinedOutput(); err != nil {
				if os.Getenv("VERIF_DEBUG") != "" {
					fmt.Fprintln(os.Stderr, "debug: cli", args, err, string(outb))
				}
				if ext != "ttml" {
					continue // e.g. SSA output of an input without metadata: fails the same way every time
				}
				return nil // a failing command is not this property's business
			}
			got, err := os.ReadFile(out)
			if err != nil || ext == "ssa" {
				continue
			}
			if first == nil {
				first = got
			} else if !bytes.Equal(first, got) {
				ep := Episode{Kind: "cli", Writer: name}
				sc, _ := json.Marshal(ep)
				at := 0
				for at < len(first) && at < len(got) && first[at] == got[at] {
					at++
				}
				return &Violation{Property: "C19", Class: "nondeterministic-output", Signature: "C19 cli-" + name + " nondeterministic-output",
					Detail: fmt.Sprintf("astisub %s on the same input files: run #%d wrote %d bytes that differ from the %d bytes of run #0 (first difference at byte %d: %s | %s)", strings.Join(args[:1], " "), k, len(got), len(first), at, ctx(first, at), ctx(got, at)), Scenario: sc}
			}
		}
	}
	return nil
}

var c19CLICases = []string{"merge3", "merge3r", "merge2", "merge4", "convert", "optimize", "fragment", "sync"}

func checkC19Any(cfg Config, ep Episode) *Violation {
	if ep.Kind == "cli" {
		return c19CLIOne(cfg, ep.Writer)
	}
	if ep.Kind == "file" {
		dir, err := os.MkdirTemp(cfg.Scratch, "c19files-")
		if err != nil {
			return nil
		}
		defer os.RemoveAll(dir)
		junk := bytes.Repeat([]byte("1\n00:00:01,000 --> 00:00:02,000\nold content of the destination\n\n"), 2000)
		return c19FileOne(dir, ep.Source, ep.Writer, junk, 0)
	}
	if ep.Kind == "first-write" {
		// warm-up: write a fixed set of other lists with every writer in this process, then compare with a fresh process
		root := prng.New(1)
		for i := 0; i < 40; i++ {
			l := corpus.GenList(root.Derive("c19-list", i), i)
			for _, w := range api.WriterFormats {
				invoke(l.Build(), w, Env{})
			}
		}
		res := NewShardResult()
		c19FirstWriteOne(cfg, ep.Source, ep.Writer, res)
		if len(res.Violations) > 0 {
			return &res.Violations[0]
		}
		return nil
	}
	if ep.Kind == "plain-reps" {
		req := plainReq{Kind: "c19-plain", Sources: []ListSource{ep.Source}, Writers: []string{ep.Writer}, Reps: ep.Reps}
		resps, err := runPlainChildren(cfg, req, ep.Procs)
		if err != nil {
			return nil
		}
		if d := plainVerdict(resps, 0, 0); len(d) > 1 {
			b, _ := json.Marshal(ep)
			return &Violation{Property: "C19", Class: "nondeterministic-output", Signature: fmt.Sprintf("C19 %s nondeterministic-output", ep.Writer),
				Detail: fmt.Sprintf("list=%s writer=%s: %d distinct outputs over %d writes x %d processes (plain build): %v", ep.Source.Name(), ep.Writer, len(d), ep.Reps, ep.Procs, d), Scenario: b}
		}
		return nil
	}
	v, _ := CheckEpisode(ep)
	return v
}

// minimiseC19 drops calls, permutations and list elements while the same class persists.
func minimiseC19(cfg Config, v Violation, budget Deadline) Violation {
	var ep Episode
	if json.Unmarshal(v.Scenario, &ep) != nil || ep.Kind != "episode" {
		return v
	}
	same := func(e Episode) bool {
		nv, _ := CheckEpisode(e)
		return nv != nil && nv.Class == v.Class
	}
	if !same(ep) {
		return v
	}
	// drop calls
	for i := 0; i < len(ep.Calls) && !budget.Passed(); {
		t := ep
		t.Calls = append(append([]Invocation(nil), ep.Calls[:i]...), ep.Calls[i+1:]...)
		if len(t.Calls) > 0 && same(t) {
			ep = t
		} else {
			i++
		}
	}
	// simplify environments
	for i := range ep.Calls {
		for j := range ep.Calls[i].Env.Perms {
			if ep.Calls[i].Env.Perms[j] == nil || budget.Passed() {
				continue
			}
			t := cloneEpisode(ep)
			t.Calls[i].Env.Perms[j] = nil
			if same(t) {
				ep = t
			}
		}
		if len(ep.Calls[i].Env.Clock) > 0 {
			t := cloneEpisode(ep)
			t.Calls[i].Env.Clock = nil
			if same(t) {
				ep = t
			}
		}
	}
	// shrink a spec list: drop items, styles, regions
	if ep.Source.Spec != nil {
		shrink := func(n func(l *corpus.ListSpec) int, drop func(l *corpus.ListSpec, i int)) {
			for i := 0; i < n(ep.Source.Spec) && !budget.Passed(); {
				t := cloneEpisode(ep)
				drop(t.Source.Spec, i)
				if same(t) {
					ep = t
				} else {
					i++
				}
			}
		}
		shrink(func(l *corpus.ListSpec) int { return len(l.Items) }, func(l *corpus.ListSpec, i int) { l.Items = append(l.Items[:i], l.Items[i+1:]...) })
		shrink(func(l *corpus.ListSpec) int { return len(l.Regions) }, func(l *corpus.ListSpec, i int) {
			id := l.Regions[i].ID
			l.Regions = append(l.Regions[:i], l.Regions[i+1:]...)
			for k := range l.Items {
				if l.Items[k].Region == id {
					l.Items[k].Region = ""
				}
			}
		})
		shrink(func(l *corpus.ListSpec) int { return len(l.Styles) }, func(l *corpus.ListSpec, i int) {
			id := l.Styles[i].ID
			l.Styles = append(l.Styles[:i], l.Styles[i+1:]...)
			for k := range l.Styles {
				if l.Styles[k].Parent == id {
					l.Styles[k].Parent = ""
				}
			}
			for k := range l.Regions {
				if l.Regions[k].Style == id {
					l.Regions[k].Style = ""
				}
			}
			for k := range l.Items {
				if l.Items[k].Style == id {
					l.Items[k].Style = ""
				}
				for a := range l.Items[k].Lines {
					for b := range l.Items[k].Lines[a].Items {
						if l.Items[k].Lines[a].Items[b].Style == id {
							l.Items[k].Lines[a].Items[b].Style = ""
						}
					}
				}
			}
		})
	}
	if nv, _ := CheckEpisode(ep); nv != nil {
		return *nv
	}
	return v
}

func cloneEpisode(ep Episode) Episode {
	var t Episode
	_ = json.Unmarshal(mustJSON(ep), &t)
	return t
}
