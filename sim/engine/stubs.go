package engine

import "fmt"

func RunC19(cfg Config) (*ShardResult, error) { return nil, fmt.Errorf("C19 not built yet") }
func RunC20(cfg Config) (*ShardResult, error) { return nil, fmt.Errorf("C20 not built yet") }
func RunChild(cfg Config, req string) int       { return 2 }

func minimiseC19(cfg Config, v Violation, b Deadline) Violation { return v }
func minimiseC20(cfg Config, v Violation, b Deadline) Violation { return v }
func replayC19(cfg Config, rf ReplayFile) (*Violation, error)   { return nil, fmt.Errorf("nyi") }
func replayC20(cfg Config, rf ReplayFile) (*Violation, error)   { return nil, fmt.Errorf("nyi") }
