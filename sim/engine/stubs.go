package engine

import "fmt"

func RunC20(cfg Config) (*ShardResult, error) { return nil, fmt.Errorf("C20 not built yet") }

func c20Child(cfg Config, kind string, req []byte) int { return 2 }

func minimiseC20(cfg Config, v Violation, b Deadline) Violation { return v }
func replayC20(cfg Config, rf ReplayFile) (*Violation, error)   { return nil, fmt.Errorf("nyi") }
