package engine

import (
	"bytes"
	"encoding/json"
	"encoding/xml"
	"fmt"
	"io"
	"os"
	"os/exec"
	"path/filepath"
	"regexp"
	"strings"
	"time"

	astisub "github.com/asticode/go-astisub"

	"verif/sim/api"
	"verif/sim/canon"
	"verif/sim/corpus"
	"verif/sim/prng"
	"verif/sim/simio"
)

// C18: I/O faults are reported, never swallowed.
//
// Read oracle (narrow relaxation): under an injected source fault the reader
// returns a non-nil error, or exactly the fault-free result (legal when the
// fault is transient, lies beyond what the reader needs, or arrives with the
// last byte of a block and is dropped by io.ReadFull). A nil error with any
// other result, a panic, or non-termination is the violation.
// Write oracle: under an injected sink fault that fired, the writer returns a
// non-nil error. Fault-free: nil error implies a structurally complete sink.

// C18Scenario is one replayable case.
type C18Scenario struct {
	Kind    string            `json:"kind"` // read | longline | write | complete | file
	Read    *ReadScenario     `json:"read,omitempty"`
	Cues    int               `json:"cues,omitempty"` // longline: cues by construction
	Source  *ListSource       `json:"source,omitempty"`
	Writer  string            `json:"writer,omitempty"`
	WFault  *simio.WriteFault `json:"wfault,omitempty"`
	WMedium string            `json:"wmedium,omitempty"` // how the sink is presented: "" plain io.Writer, "rich" (+StringWriter, ByteWriter, ReaderFrom)
	File    string            `json:"file,omitempty"`
}

// ListSource says where a cue list comes from: a document read by the library, or a spec.
type ListSource struct {
	Doc    string           `json:"doc,omitempty"`
	Reader string           `json:"reader,omitempty"`
	Data   []byte           `json:"data,omitempty"`
	Spec   *corpus.ListSpec `json:"spec,omitempty"`
	Many   int              `json:"many,omitempty"` // corpus.ManyCues(Many): a plain list of that many cues
	// Ops: in-memory transformations applied after the list was read / built (the list a writer gets is often
	// the result of a pipeline: Fragment leaves items that share their Lines, Merge items of two documents, ...)
	Ops []api.Op `json:"ops,omitempty"`
}

// Build materialises the list (nil when the source document does not parse or a transformation panics).
func (ls ListSource) Build() *astisub.Subtitles {
	var s *astisub.Subtitles
	if ls.Many > 0 {
		s = corpus.ManyCues(ls.Many).Build()
	} else if ls.Spec != nil {
		s = ls.Spec.Build()
	} else {
		var err error
		var p string
		s, err, p = api.Read(ls.Reader, bytes.NewReader(ls.Data))
		if err != nil || p != "" {
			return nil
		}
	}
	for _, op := range ls.Ops {
		var other *astisub.Subtitles
		if op.Name == "merge" {
			o := ls
			o.Ops = nil
			other = o.Build() // merged with a second, independent copy of itself
		}
		if api.Apply(op, s, other) != "" {
			return nil
		}
	}
	return s
}

// Name is a short label.
func (ls ListSource) Name() string {
	n := ls.Doc
	if ls.Spec != nil {
		n = ls.Spec.Name
	}
	if ls.Many > 0 {
		n = "many-" + fmt.Sprint(ls.Many)
	}
	for _, op := range ls.Ops {
		n += "|" + op.Name
	}
	return n
}

type c18Limits struct {
	exhaustive  int // every fault offset up to this document size
	sampled     int
	allCombos   bool // every (kind, with-data, sticky) combination on every offset
	genPerFmt   int
	lists       int
	wExhaustive int
	wSampled    int
	longLens    []int
	manySizes   []int // plain lists of that many cues (size thresholds inside writers)
}

func c18LimitsFor(tier string) c18Limits {
	if tier == "thorough" {
		return c18Limits{exhaustive: 12000, sampled: 2000, allCombos: true, genPerFmt: 14, lists: 150, wExhaustive: 20000, wSampled: 2000,
			longLens:  []int{65535, 65536, 65537, 1 << 17, 1 << 18, 1 << 20},
			manySizes: []int{63, 64, 65, 127, 128, 129, 255, 256, 257, 511, 512, 513, 1000, 1023, 1024, 1025, 2047, 2048, 2049, 4095, 4096, 4097, 4103, 8191, 8192, 8193, 9999, 10000, 10001, 16383, 16384, 16385, 32767, 32768, 32769, 65535, 65536, 65537, 99999, 100000, 100001, 131071, 131073, 250007}}
	}
	if tier == "smoke" { // determinism self-test only
		return c18Limits{exhaustive: 1200, sampled: 40, genPerFmt: 1, lists: 4, wExhaustive: 1500, wSampled: 40, longLens: []int{65536}, manySizes: []int{257, 1025}}
	}
	return c18Limits{exhaustive: 6000, sampled: 400, allCombos: false, genPerFmt: 5, lists: 30, wExhaustive: 6000, wSampled: 300,
		longLens:  []int{65535, 65536, 65537, 1 << 17, 1 << 20},
		manySizes: []int{127, 128, 129, 255, 256, 257, 511, 512, 513, 1023, 1024, 1025, 2049, 4095, 4096, 4097, 4103, 8193, 10001, 16385, 32769, 65535, 65536, 65537, 99999, 100000, 100001}}
}

type faultCombo struct {
	kind             string
	withData, sticky bool
	thenEOF          bool // reported once, then the stream just ends
}

func allFaultCombos() []faultCombo {
	var cs []faultCombo
	for _, k := range simio.ReadFaultKinds {
		for _, wd := range []bool{false, true} {
			for _, st := range []bool{true, false} {
				cs = append(cs, faultCombo{k, wd, st, false})
			}
			cs = append(cs, faultCombo{k, wd, false, true})
		}
	}
	return cs
}

// granularity g of the delivery around the fault: 0 whole, 1 one-byte, 2 seeded chunks
func granPlan(g int, r *prng.R) simio.ReadPlan {
	switch g {
	case 1:
		return simio.ReadPlan{Name: "one-byte", Rest: 1}
	case 2:
		return simio.ReadPlan{Name: "chunks", Rest: r.PickInt(2, 3, 7, 64, 127, 188, 500, 4095)}
	}
	return simio.ReadPlan{Name: "whole"}
}

// hasRun reports whether b holds n consecutive bytes c.
func hasRun(b []byte, c byte, n int) bool {
	run := 0
	for _, x := range b {
		if x == c {
			run++
			if run >= n {
				return true
			}
		} else {
			run = 0
		}
	}
	return false
}

// readsToEnd lists the readers that cannot know their document is complete before the stream says so (every format
// but TTML, whose decoder stops at the end of the root element): a nil error from them while the source still holds
// unread bytes - behind which the injected fault was waiting - means they stopped listening, not that all went well.
func readsToEnd(reader string) bool { return reader != "ttml" }

func c18ReadViolation(sc ReadScenario, ref, o canon.Outcome, fired bool, cues int) *Violation {
	return c18ReadViolationAt(sc, ref, o, fired, cues, -1)
}

// c18ReadViolationAt: pos is where the source's cursor stood when the reader returned (-1: unknown).
func c18ReadViolationAt(sc ReadScenario, ref, o canon.Outcome, fired bool, cues, pos int) *Violation {
	var class, why string
	switch {
	case o.Class == "ok" && pos >= 0 && !fired && sc.Plan.Fault != nil && sc.Plan.Fault.Offset < len(sc.Data) && pos < len(sc.Data) && readsToEnd(sc.Reader):
		class, why = "silent-truncation", fmt.Sprintf("nil error although the reader stopped at byte %d of %d and never met the failure waiting at offset %d", pos, len(sc.Data), sc.Plan.Fault.Offset)
	case o.Class == "panic":
		class, why = "panic-under-fault", "the reader panicked"
	case o.Class == "overrun":
		class, why = "no-termination-under-fault", "the reader did not terminate within the event budget"
	case o.Class == "ok" && cues >= 0 && o.Items != cues:
		class, why = "silent-truncation", fmt.Sprintf("nil error with %d of %d cues", o.Items, cues)
	case o.Class == "ok" && sc.MustRun > 0 && !hasRun(o.Canon, 'L', sc.MustRun):
		class, why = "silent-truncation", fmt.Sprintf("nil error although the text of the %d-byte line is not in the result", sc.MustRun)
	case o.Class == "ok" && cues < 0 && o.Key() != ref.Key():
		class, why = "silent-truncation", fmt.Sprintf("nil error with a result that differs from the fault-free one (%d vs %d cues)", o.Items, ref.Items)
	default:
		return nil
	}
	medium := sc.Plan.Medium
	if medium == "" {
		medium = "plain"
	}
	fk := "none"
	if sc.Plan.Fault != nil {
		fk = sc.Plan.Fault.Kind
	}
	if sc.Plan.SeekFail {
		fk = "seekfail"
	}
	kind := "read"
	if cues >= 0 {
		kind = "longline"
	}
	b, _ := json.Marshal(C18Scenario{Kind: kind, Read: &sc, Cues: cues})
	return &Violation{
		Property:  "C18",
		Class:     class,
		Signature: fmt.Sprintf("C18 %s %s medium=%s fault=%s %s", kind, sc.Reader, medium, fk, class),
		Detail:    fmt.Sprintf("doc=%s (%d bytes) plan=%s fired=%v: %s; err=%q", sc.Doc, len(sc.Data), trunc(planKey(sc.Plan), 240), fired, why, trunc(o.Err, 200)),
		Scenario:  b,
	}
}

// checkC18Read evaluates a read / longline scenario.
func checkC18Read(sc ReadScenario, cues int) (*Violation, *simio.Reader) {
	var ref canon.Outcome
	if cues < 0 {
		ref, _ = EvalRead(sc.Reader, sc.Data, simio.ReadPlan{Medium: sc.Plan.Medium})
		if ref.Class != "ok" {
			return nil, nil // only documents that parse fault-free are fault targets
		}
	}
	o, sr := EvalRead(sc.Reader, sc.Data, sc.Plan)
	return c18ReadViolationAt(sc, ref, o, sr.FaultFired(), cues, sr.Pos()), sr
}

var (
	// timing lines: "<start> --> <end>" (cue times may be negative or oversized, so only the shape is matched)
	reSRTTiming = regexp.MustCompile(`(?m)^[-0-9:,]+ --> [-0-9:,]+`)
	reVTTTiming = regexp.MustCompile(`(?m)^[-0-9:.]+ --> [-0-9:.]+`)
	reSSADialog = regexp.MustCompile(`(?m)^Dialogue: `)
)

// lastWord returns the last ASCII alphanumeric word of the last cue's text ("" if there is none): whatever
// the writer's formatting, a complete SRT/WebVTT/SSA document carries it within its final bytes.
func lastWord(s *astisub.Subtitles) string {
	if s == nil || len(s.Items) == 0 {
		return ""
	}
	it := s.Items[len(s.Items)-1]
	for l := len(it.Lines) - 1; l >= 0; l-- {
		for k := len(it.Lines[l].Items) - 1; k >= 0; k-- {
			t := it.Lines[l].Items[k].Text
			end := -1
			for i := len(t) - 1; i >= 0; i-- {
				c := t[i]
				alnum := c >= '0' && c <= '9' || c >= 'a' && c <= 'z' || c >= 'A' && c <= 'Z'
				if alnum && end < 0 {
					end = i + 1
				}
				if !alnum && end >= 0 {
					return t[i+1 : end]
				}
			}
			if end >= 0 {
				return t[:end]
			}
		}
	}
	return ""
}

// completeSink checks, without reusing the writer, that the bytes handed to
// the sink form a structurally complete document with c cues.
func completeSink(writer string, out []byte, c int, tail string) string {
	switch writer {
	case "stl":
		if len(out) != 1024+128*c {
			return fmt.Sprintf("STL output has %d bytes, want 1024+128*%d", len(out), c)
		}
	case "srt":
		if n := len(reSRTTiming.FindAll(out, -1)); n != c {
			return fmt.Sprintf("SRT output has %d timing lines, want %d", n, c)
		}
		if tail != "" && !bytes.Contains(out[max(0, len(out)-240):], []byte(tail)) {
			return fmt.Sprintf("SRT output does not end with the text of the last cue (%q not in the final bytes)", tail)
		}
	case "vtt":
		if n := len(reVTTTiming.FindAll(out, -1)); n != c {
			return fmt.Sprintf("WebVTT output has %d timing lines, want %d", n, c)
		}
		if tail != "" && !bytes.Contains(out[max(0, len(out)-240):], []byte(tail)) {
			return fmt.Sprintf("WebVTT output does not end with the text of the last cue (%q not in the final bytes)", tail)
		}
	case "ssa":
		if n := len(reSSADialog.FindAll(out, -1)); n != c {
			return fmt.Sprintf("SSA output has %d Dialogue lines, want %d", n, c)
		}
		if tail != "" && !bytes.Contains(out[max(0, len(out)-240):], []byte(tail)) {
			return fmt.Sprintf("SSA output does not end with the text of the last cue (%q not in the final bytes)", tail)
		}
	case "ttml", "ttml-noindent", "ttml-tab":
		d := xml.NewDecoder(bytes.NewReader(out))
		depth, ps, closedRoot := 0, 0, false
		for {
			t, err := d.Token()
			if err == io.EOF {
				break
			}
			if err != nil {
				return "TTML output is not well-formed XML: " + err.Error()
			}
			switch e := t.(type) {
			case xml.StartElement:
				depth++
				if e.Name.Local == "p" {
					ps++
				}
			case xml.EndElement:
				depth--
				if depth == 0 {
					closedRoot = true
				}
			}
		}
		if !closedRoot || depth != 0 {
			return "TTML output does not end with the root end tag"
		}
		if ps != c {
			return fmt.Sprintf("TTML output has %d <p>, want %d", ps, c)
		}
	}
	return ""
}

// stlMaskDates blanks the clock-fed date fields of an STL header (C18 runs under the real clock).
func stlMaskDates(writer string, out []byte) []byte {
	if writer != "stl" || len(out) < 236 {
		return out
	}
	m := append([]byte(nil), out...)
	for i := 224; i < 236; i++ {
		m[i] = '#'
	}
	return m
}

// evalWrite runs one writer call on a fresh build of the list.
func evalWrite(src ListSource, writer string, plan simio.WritePlan) (cls string, errText string, w *simio.Writer, cues int) {
	cls, errText, w, cues, _ = evalWriteTail(src, writer, plan)
	return
}

func evalWriteTail(src ListSource, writer string, plan simio.WritePlan) (cls string, errText string, w *simio.Writer, cues int, tail string) {
	s := src.Build()
	if s == nil {
		return "nolist", "", nil, 0, ""
	}
	tail = lastWord(s)
	w = simio.NewWriter(plan)
	err, p := api.Write(writer, s, w.Wrap())
	switch {
	case p != "":
		return "panic", p, w, len(s.Items), tail
	case err != nil:
		return "error", err.Error(), w, len(s.Items), tail
	}
	return "ok", "", w, len(s.Items), tail
}

func checkC18Write(sc C18Scenario) *Violation {
	src := *sc.Source
	cls0, _, w0, cues, tail := evalWriteTail(src, sc.Writer, simio.WritePlan{})
	if cls0 != "ok" {
		return nil // a writer that fails on this list without any fault is outside C18
	}
	mk := func(class, why string) *Violation {
		b, _ := json.Marshal(sc)
		fk := "none"
		if sc.WFault != nil {
			fk = sc.WFault.Kind
		}
		return &Violation{Property: "C18", Class: class,
			Signature: fmt.Sprintf("C18 %s %s fault=%s %s", sc.Kind, sc.Writer, fk, class),
			Detail:    fmt.Sprintf("list=%s writer=%s fault=%+v: %s", src.Name(), sc.Writer, sc.WFault, why), Scenario: b}
	}
	if sc.Kind == "complete" {
		out := w0.Buf
		if sc.WMedium != "" {
			cr, _, wr, _, _ := evalWriteTail(src, sc.Writer, simio.WritePlan{Medium: sc.WMedium})
			if cr != "ok" {
				return mk("incomplete-output", "writer fails on a sink offering optional interfaces but not on a plain one")
			}
			if !bytes.Equal(stlMaskDates(sc.Writer, wr.Buf), stlMaskDates(sc.Writer, w0.Buf)) {
				return mk("incomplete-output", "the bytes handed to a sink offering io.StringWriter/io.ReaderFrom differ from those handed to a plain io.Writer")
			}
			out = wr.Buf
		}
		if why := completeSink(sc.Writer, out, cues, tail); why != "" {
			return mk("incomplete-output", "writer returned nil but "+why)
		}
		return nil
	}
	cls, et, w, _ := evalWrite(src, sc.Writer, simio.WritePlan{Fault: sc.WFault, Medium: sc.WMedium})
	switch {
	case cls == "panic":
		return mk("panic-under-fault", "the writer panicked: "+trunc(et, 200))
	case cls == "ok" && w.FaultFired():
		return mk("swallowed-write-error", fmt.Sprintf("the sink failed at offset %d (%d of %d bytes accepted) and the writer returned nil", sc.WFault.Offset, len(w.Buf), len(w0.Buf)))
	}
	return nil
}

// ---- file-level helpers (real OS) ------------------------------------------

var fileCases = []string{
	"open-missing", "open-dir-srt", "open-dir-vtt", "open-dir-ssa", "open-dir-ass", "open-dir-stl", "open-dir-ttml", "open-dir-ts", "open-badext",
	"write-missing-dir", "write-to-dir", "write-badext", "write-empty",
	"write-devfull-srt", "write-devfull-vtt", "write-devfull-ssa", "write-devfull-stl", "write-devfull-ttml",
	"write-ok-srt", "write-ok-vtt", "write-ok-ssa", "write-ok-stl", "write-ok-ttml",
	// the repository's command line tool on top of the helpers (exit status is its only error channel)
	"cli-convert-ok", "cli-open-missing", "cli-write-devfull", "cli-write-missing-dir", "cli-merge-second-missing",
	// every subcommand: an input that opens but fails while it is parsed (over-long line behind three good cues), a
	// destination on a full device, and the fault-free run (exit 0 and a complete file)
	"cli-all-bad-input", "cli-all-devfull", "cli-all-ok", "cli-convert-every-format",
	// merge of a failing input with a large good one, in both orders (whichever is opened or finishes first)
	"cli-merge-bad-first-large-second", "cli-merge-large-first-bad-second",
}

// cliSubcommands lists the subcommands of the repository's tool with the arguments each needs.
var cliSubcommands = [][]string{
	{"convert"}, {"fragment", "-f", "1s"}, {"optimize"}, {"sync", "-s", "1s"}, {"unfragment"},
	{"apply-linear-correction", "-a1", "1s", "-d1", "1s", "-a2", "2s", "-d2", "2s"},
}

// cliPath is the CLI built from the tree under test ("" = not available).
var cliPath string

func sampleList() *astisub.Subtitles {
	s := astisub.NewSubtitles()
	s.Metadata = &astisub.Metadata{Framerate: 25, STLDisplayStandardCode: "1"}
	for i := 0; i < 3; i++ {
		s.Items = append(s.Items, &astisub.Item{StartAt: time.Duration(i) * time.Second, EndAt: time.Duration(i)*time.Second + 500*time.Millisecond,
			Lines: []astisub.Line{{Items: []astisub.LineItem{{Text: fmt.Sprintf("cue %d", i)}}}}})
	}
	return s
}

// checkC18File runs one file-level case in dir (a fresh temporary directory).
func checkC18File(name, dir string) (v *Violation, note string) {
	mk := func(why string) *Violation {
		b, _ := json.Marshal(C18Scenario{Kind: "file", File: name})
		return &Violation{Property: "C18", Class: "file-helper-swallowed-error", Signature: "C18 file " + name, Detail: why, Scenario: b}
	}
	guard := func(f func() error) (err error, panicked string) {
		defer func() {
			if p := recover(); p != nil {
				panicked = fmt.Sprint(p)
			}
		}()
		return f(), ""
	}
	expectErr := func(what string, f func() error) *Violation {
		err, p := guard(f)
		if p != "" {
			return mk(what + ": panicked: " + p)
		}
		if err == nil {
			return mk(what + ": returned a nil error")
		}
		return nil
	}
	switch {
	case name == "open-missing":
		return expectErr("OpenFile on a missing path", func() error { _, e := astisub.OpenFile(filepath.Join(dir, "missing.srt")); return e }), ""
	case strings.HasPrefix(name, "open-dir-"):
		p := filepath.Join(dir, "adir."+strings.TrimPrefix(name, "open-dir-"))
		if err := os.Mkdir(p, 0o755); err != nil {
			return nil, "skipped: " + err.Error()
		}
		return expectErr("OpenFile on a directory named "+filepath.Base(p)+" (open succeeds, read fails with EISDIR)", func() error { _, e := astisub.OpenFile(p); return e }), ""
	case name == "open-badext":
		p := filepath.Join(dir, "x.txt")
		_ = os.WriteFile(p, []byte("1\n00:00:01,000 --> 00:00:02,000\nx\n"), 0o644)
		return expectErr("OpenFile with an unknown extension", func() error { _, e := astisub.OpenFile(p); return e }), ""
	case name == "write-missing-dir":
		return expectErr("Write into a missing directory", func() error { return sampleList().Write(filepath.Join(dir, "nodir", "o.srt")) }), ""
	case name == "write-to-dir":
		p := filepath.Join(dir, "odir.srt")
		_ = os.Mkdir(p, 0o755)
		return expectErr("Write onto a directory", func() error { return sampleList().Write(p) }), ""
	case name == "write-badext":
		return expectErr("Write with an unknown extension", func() error { return sampleList().Write(filepath.Join(dir, "o.txt")) }), ""
	case name == "write-empty":
		return expectErr("Write of an empty list", func() error { return astisub.NewSubtitles().Write(filepath.Join(dir, "e.srt")) }), ""
	case strings.HasPrefix(name, "write-devfull-"):
		if _, err := os.Stat("/dev/full"); err != nil {
			return nil, "skipped: no /dev/full"
		}
		p := filepath.Join(dir, "full."+strings.TrimPrefix(name, "write-devfull-"))
		if err := os.Symlink("/dev/full", p); err != nil {
			return nil, "skipped: " + err.Error()
		}
		return expectErr("Write to "+filepath.Base(p)+" -> /dev/full (ENOSPC on the first write)", func() error { return sampleList().Write(p) }), ""
	case strings.HasPrefix(name, "cli-"):
		if cliPath == "" {
			return nil, "skipped: CLI binary not available"
		}
		in := filepath.Join(dir, "in.srt")
		_ = os.WriteFile(in, []byte("1\n00:00:01,000 --> 00:00:02,000\ncue 0\n\n2\n00:00:03,000 --> 00:00:04,000\ncue 1\n\n3\n00:00:05,000 --> 00:00:06,000\ncue 2\n"), 0o644)
		run := func(args ...string) (int, string) {
			cmd := exec.Command(cliPath, args...)
			out, err := cmd.CombinedOutput()
			if err == nil {
				return 0, string(out)
			}
			if ee, ok := err.(*exec.ExitError); ok {
				return ee.ExitCode(), string(out)
			}
			return -1, err.Error()
		}
		switch name {
		case "cli-convert-ok":
			outp := filepath.Join(dir, "out.vtt")
			rc, o := run("convert", "-i", in, "-o", outp)
			if rc != 0 {
				return nil, "fault-free CLI convert failed (" + trunc(o, 100) + "): not a C18 matter"
			}
			b, _ := os.ReadFile(outp)
			if why := completeSink("vtt", b, 3, "2"); why != "" {
				return mk("CLI convert exited 0 but " + why), ""
			}
		case "cli-open-missing":
			if rc, _ := run("convert", "-i", filepath.Join(dir, "missing.srt"), "-o", filepath.Join(dir, "o.vtt")); rc == 0 {
				return mk("CLI convert of a missing input exited 0"), ""
			}
		case "cli-write-devfull":
			if _, err := os.Stat("/dev/full"); err != nil {
				return nil, "skipped: no /dev/full"
			}
			p := filepath.Join(dir, "full.vtt")
			if err := os.Symlink("/dev/full", p); err != nil {
				return nil, "skipped: " + err.Error()
			}
			if rc, _ := run("convert", "-i", in, "-o", p); rc == 0 {
				return mk("CLI convert to a full device (ENOSPC) exited 0"), ""
			}
		case "cli-write-missing-dir":
			if rc, _ := run("convert", "-i", in, "-o", filepath.Join(dir, "nodir", "o.vtt")); rc == 0 {
				return mk("CLI convert into a missing directory exited 0"), ""
			}
		case "cli-merge-second-missing":
			if rc, _ := run("merge", "-i", in, "-i", filepath.Join(dir, "missing2.srt"), "-o", filepath.Join(dir, "m.vtt")); rc == 0 {
				return mk("CLI merge with a missing second input exited 0"), ""
			}
		case "cli-all-bad-input", "cli-merge-bad-first-large-second", "cli-merge-large-first-bad-second":
			bad := filepath.Join(dir, "bad.srt")
			_ = os.WriteFile(bad, corpus.LongLine("srt", 5, 3, "text", 70000).Data, 0o644)
			if _, err, _ := fileOpen(bad); err == nil {
				return nil, "skipped: the library accepts a 70 000-byte line"
			}
			if name == "cli-all-bad-input" {
				for _, sub := range append(cliSubcommands, []string{"merge", "-i", in}) {
					args := append(append([]string{}, sub...), "-i", bad, "-o", filepath.Join(dir, "o-"+sub[0]+".vtt"))
					if rc, _ := run(args...); rc == 0 {
						return mk("CLI " + sub[0] + " of an input that fails while it is read (over-long line behind three cues) exited 0"), ""
					}
				}
				return nil, ""
			}
			large := filepath.Join(dir, "large.srt")
			_ = os.WriteFile(large, corpus.Large("srt", prng.New(1).Derive("cli-large", 0), 3<<20).Data, 0o644)
			a, b := bad, large
			if name == "cli-merge-large-first-bad-second" {
				a, b = large, bad
			}
			for k := 0; k < 3; k++ { // which of the two finishes first is not controlled here: a few attempts
				if rc, _ := run("merge", "-i", a, "-i", b, "-o", filepath.Join(dir, "m.vtt")); rc == 0 {
					return mk("CLI merge of " + filepath.Base(a) + " and " + filepath.Base(b) + " (one of them fails while it is read) exited 0"), ""
				}
			}
		case "cli-all-devfull":
			if _, err := os.Stat("/dev/full"); err != nil {
				return nil, "skipped: no /dev/full"
			}
			p := filepath.Join(dir, "full.vtt")
			if err := os.Symlink("/dev/full", p); err != nil {
				return nil, "skipped: " + err.Error()
			}
			for _, sub := range append(cliSubcommands, []string{"merge", "-i", in}) {
				args := append(append([]string{}, sub...), "-i", in, "-o", p)
				if rc, _ := run(args...); rc == 0 {
					return mk("CLI " + sub[0] + " to a full device (ENOSPC) exited 0"), ""
				}
			}
		case "cli-convert-every-format":
			// an exit status of 0 promises a complete file whatever the output format (a conversion the library cannot
			// do - SSA output of an input without metadata panics today - must not end in exit 0 and a stub)
			for _, ext := range []string{"srt", "vtt", "ssa", "ass", "stl", "ttml"} {
				outp := filepath.Join(dir, "every."+ext)
				rc, _ := run("convert", "-i", in, "-o", outp)
				if rc != 0 {
					continue
				}
				b, _ := os.ReadFile(outp)
				w := map[string]string{"ass": "ssa"}[ext]
				if w == "" {
					w = ext
				}
				if why := completeSink(w, b, 3, "2"); why != "" {
					return mk("CLI convert to ." + ext + " exited 0 but " + why), ""
				}
			}
		case "cli-all-ok":
			for _, sub := range cliSubcommands {
				if sub[0] == "fragment" {
					continue // changes the number of cues
				}
				outp := filepath.Join(dir, "ok-"+sub[0]+".vtt")
				args := append(append([]string{}, sub...), "-i", in, "-o", outp)
				rc, o := run(args...)
				if rc != 0 {
					return nil, "fault-free CLI " + sub[0] + " failed (" + trunc(o, 100) + "): not a C18 matter"
				}
				b, _ := os.ReadFile(outp)
				if why := completeSink("vtt", b, 3, "2"); why != "" {
					return mk("CLI " + sub[0] + " exited 0 but " + why), ""
				}
			}
		}
		return nil, ""
	case strings.HasPrefix(name, "write-ok-"):
		ext := strings.TrimPrefix(name, "write-ok-")
		p := filepath.Join(dir, "ok."+ext)
		err, pn := guard(func() error { return sampleList().Write(p) })
		if pn != "" || err != nil {
			return nil, fmt.Sprintf("fault-free Write failed (%v %s): not a C18 matter", err, pn)
		}
		b, rerr := os.ReadFile(p)
		if rerr != nil {
			return mk("Write returned nil but the file cannot be read back: " + rerr.Error()), ""
		}
		w := ext
		if w == "vtt" {
			w = "vtt"
		}
		if why := completeSink(w, b, 3, "2"); why != "" {
			return mk("Write returned nil but " + why), ""
		}
		return nil, ""
	}
	return nil, "unknown file case"
}

// ---- worker ----------------------------------------------------------------

// RunC18 is the worker body.
func RunC18(cfg Config) (*ShardResult, error) {
	lim := c18LimitsFor(cfg.Tier)
	root := prng.New(cfg.Seed)
	res := NewShardResult()
	seen := keySet{}
	addV := func(v *Violation) bool {
		if v == nil {
			return false
		}
		res.Violations = append(res.Violations, *v)
		return len(res.Violations) > 60
	}
	// ---------- A. read faults
	docs, err := corpus.LoadTestdata(cfg.Repo)
	if err != nil {
		return nil, err
	}
	docs = append(docs, corpus.Generated(root, lim.genPerFmt)...)
	if cfg.Tier == "thorough" {
		for _, f := range []string{"srt", "vtt", "ssa"} {
			docs = append(docs, corpus.Large(f, root.Derive("large-"+f, 70000), 70000))
		}
	}
	res.Docs = int64(len(docs))
	combos := allFaultCombos()
	for di, d := range docs {
		dh := canon.HashBytes(d.Data)
		dr := root.Derive("c18-"+d.Name, di)
		n := len(d.Data)
		// offsets
		type offk struct {
			k       int
			aligned bool
		}
		var offs []offk
		aligned := map[int]bool{}
		for _, k := range structureOffsets(d.Format, d.Data) {
			aligned[k] = true
		}
		if n <= lim.exhaustive {
			for k := 0; k <= n; k++ {
				offs = append(offs, offk{k, aligned[k]})
			}
		} else {
			for _, k := range structureOffsets(d.Format, d.Data) {
				offs = append(offs, offk{k, true})
			}
			for i := 0; i < lim.sampled; i++ {
				offs = append(offs, offk{dr.Intn(n + 1), false})
			}
		}
		for _, reader := range corpus.ReaderConfigs(d.Format) {
			for _, medium := range mediaFor(d.Format) {
				// only documents that parse when delivered whole (also when that gives no cue at all: a reader that
				// stops listening early - and so meets no fault behind that point - returns few or no cues fault-free too)
				ref, _ := EvalRead(reader, d.Data, simio.ReadPlan{Medium: medium})
				if ref.Class != "ok" {
					continue
				}
				for oi, ok := range offs {
					var cs []faultCombo
					var grans []int
					switch {
					case lim.allCombos && n <= lim.exhaustive:
						// thorough: every (kind, shape) on every offset, granularity rotating with the offset;
						// all three granularities on the structure-aligned offsets
						cs, grans = combos, []int{(ok.k + oi) % 3}
						if ok.aligned {
							grans = []int{0, 1, 2}
						}
					case ok.aligned && (lim.allCombos || aligned[ok.k] && dr.Bool(0.15)):
						cs, grans = combos, []int{0, 1, 2}
					default:
						a := combos[(ok.k+oi)%len(combos)]
						b := combos[(ok.k*7+3+oi)%len(combos)]
						cs, grans = []faultCombo{a, b}, []int{(ok.k + oi) % 3}
					}
					for _, c := range cs {
						for _, g := range grans {
							p := granPlan(g, dr)
							p.Medium = medium
							p.Fault = &simio.Fault{Offset: ok.k, Kind: c.kind, WithData: c.withData, Sticky: c.sticky, ThenEOF: c.thenEOF}
							key := Key64("read", dh, reader, planKey(p))
							if !cfg.Mine(key) {
								continue
							}
							sc := ReadScenario{Doc: d.Name, Reader: reader, Data: d.Data, Plan: p}
							o, sr := EvalRead(reader, d.Data, p)
							res.Evaluations++
							res.SimEvents += int64(sr.St.Reads + sr.St.Seeks)
							res.Note("r", dh, reader, planKey(p), o.Key(), fmt.Sprint(sr.St.Reads, sr.FaultFired()))
							if sr.FaultFired() {
								res.Faults["read:"+c.kind]++
								if c.withData {
									res.Probes["fault_with_data"]++
								}
								if !c.sticky && !c.thenEOF {
									res.Probes["fault_transient"]++
								}
								if c.thenEOF {
									res.Probes["fault_then_eof"]++
								}
								if o.Class == "ok" {
									res.Probes["fault_fired_result_complete"]++
								} else {
									res.Probes["fault_fired_error_returned"]++
								}
								if seen.add(key) {
									res.Distinct++
								}
							} else {
								res.Probes["fault_not_reached"]++
							}
							if len(res.Samples) < 2 && cfg.Shard == 0 && ok.k > 0 {
								res.Samples = append(res.Samples, map[string]interface{}{"kind": "read", "doc": d.Name, "bytes": n, "reader": reader, "plan": p, "fired": sr.FaultFired(), "outcome": o.Class, "err": trunc(o.Err, 120)})
							}
							if addV(c18ReadViolationAt(sc, ref, o, sr.FaultFired(), -1, sr.Pos())) {
								return res, nil
							}
						}
					}
				}
				// rewind failure (PID auto-detection on a seekable medium)
				if medium == "seekable" {
					p := simio.ReadPlan{Name: "seekfail", Medium: medium, SeekFail: true}
					key := Key64("seekfail", dh, reader)
					if cfg.Mine(key) {
						sc := ReadScenario{Doc: d.Name, Reader: reader, Data: d.Data, Plan: p}
						o, sr := EvalRead(reader, d.Data, p)
						res.Evaluations++
						if sr.St.SeekFaults > 0 {
							res.Faults["seek:sim"]++
							if seen.add(key) {
								res.Distinct++
							}
						}
						if addV(c18ReadViolation(sc, ref, o, sr.St.SeekFaults > 0, -1)) {
							return res, nil
						}
					}
				}
			}
		}
	}
	// ---------- A2. a document of 17 MiB (beyond any "reasonable" cap a reader might put on its input): faults far into it
	{
		var d corpus.Doc
		for fi, k := range []int{16<<20 + 1, 17<<20 - 1, 8 << 20} {
			for _, reader := range []string{"srt"} {
				p := simio.ReadPlan{Name: "huge", Rest: 1 << 16, Fault: &simio.Fault{Offset: k, Kind: []string{"sim", "unexpectedeof", "connreset"}[fi], Sticky: true}}
				if !cfg.Mine(Key64("huge", reader, fmt.Sprint(k))) {
					continue
				}
				if d.Data == nil { // generated only by the workers that own one of these cases (same bytes for every seed)
					d = corpus.Large("srt", prng.New(1).Derive("huge", 0), 17<<20)
				}
				sc := ReadScenario{Doc: d.Name, Reader: reader, Data: d.Data, Plan: p}
				o, sr := EvalRead(reader, d.Data, p)
				res.Evaluations++
				res.Probes["fault_beyond_16MiB"]++
				if sr.FaultFired() && seen.add(Key64("huge", reader, fmt.Sprint(k))) {
					res.Distinct++
				}
				if o.Class == "ok" || o.Class == "panic" || o.Class == "overrun" {
					// the reference (fault-free parse of 17 MiB) is only computed when needed
					ref, _ := EvalRead(reader, d.Data, simio.ReadPlan{Rest: 1 << 16})
					if v := c18ReadViolationAt(sc, ref, o, sr.FaultFired(), -1, sr.Pos()); v != nil {
						// keep the replay file small: the document is regenerated from its name on replay
						sc.Data = nil
						b, _ := json.Marshal(C18Scenario{Kind: "huge", Read: &sc})
						v.Scenario = b
						if addV(v) {
							return res, nil
						}
					}
				}
			}
		}
	}
	// ---------- B. over-long lines
	for _, f := range []string{"srt", "vtt", "ssa"} {
		for _, L := range lim.longLens {
			for _, where := range []string{"text", "timing"} {
				if f == "ssa" && where == "timing" {
					continue
				}
				for _, at := range []int{0, 2, 4} {
					d := corpus.LongLine(f, 5, at, where, L)
					for g := 0; g < 3; g++ {
						if g == 1 && L > 1<<17 {
							continue // one-byte delivery of a megabyte adds nothing over 128 KiB
						}
						p := granPlan(g, root.Derive("ll", g))
						key := Key64("longline", d.Name, planKey(p))
						if !cfg.Mine(key) {
							continue
						}
						for _, reader := range corpus.ReaderConfigs(f) {
							sc := ReadScenario{Doc: d.Name, Reader: reader, Data: d.Data, Plan: p}
							if where == "text" {
								sc.MustRun = L
							}
							v, sr := checkC18Read(sc, d.Cues)
							res.Evaluations++
							res.SimEvents += int64(sr.St.Reads)
							res.Note("ll", reader, d.Name, planKey(p), fmt.Sprint(v != nil, sr.St.Reads))
							res.Probes["overlong_line"]++
							if seen.add(Key64("ll", reader, d.Name, planKey(p))) {
								res.Distinct++
							}
							if addV(v) {
								return res, nil
							}
						}
					}
				}
			}
		}
	}
	// ---------- B3. the over-long line is the last one of the stream: unterminated, or closed by a lone CR, or by
	// LF; the stream ends with EOF on its own or together with the last bytes. Whether such a line fits is known
	// to the reader only when the stream ends, and it must not depend on how the end is announced.
	for _, f := range []string{"srt", "vtt", "ssa"} {
		for _, L := range lim.longLens {
			if L > 1<<17 {
				continue
			}
			d := corpus.LongLine(f, 5, 4, "text", L)
			end := bytes.LastIndexByte(d.Data, 'L') + 1
			for ti, term := range []string{"", "\r", "\n", "\r\n"} {
				data := append(append([]byte{}, d.Data[:end]...), term...)
				name := fmt.Sprintf("%s-final-term%d", d.Name, ti)
				if !cfg.Mine(Key64("longline3", name)) {
					continue
				}
				for pi, p := range []simio.ReadPlan{{Name: "whole"}, {Name: "whole+eof", EOFWithData: true}, {Name: "chunks+eof", Rest: 4096, EOFWithData: true}, {Name: "chunks", Rest: 4096}} {
					for _, reader := range corpus.ReaderConfigs(f) {
						sc := ReadScenario{Doc: name, Reader: reader, Data: data, Plan: p, MustRun: L}
						v, sr := checkC18Read(sc, d.Cues)
						res.Evaluations++
						res.SimEvents += int64(sr.St.Reads)
						res.Note("ll3", reader, name, fmt.Sprint(pi), fmt.Sprint(v != nil, sr.St.Reads))
						res.Probes["overlong_final_line"]++
						if seen.add(Key64("ll3", reader, name, fmt.Sprint(pi))) {
							res.Distinct++
						}
						if addV(v) {
							return res, nil
						}
					}
				}
			}
		}
	}
	// ---------- B2. an over-long line inserted at every line position of a structurally rich document
	// (header, comments, style blocks, regions, known and unknown sections): the cue count with a short
	// line at that position is the reference; with the long line the reader must fail or return all of them
	for _, f := range []string{"srt", "vtt", "ssa"} {
		base, _ := corpus.LongLineBase(f)
		for k := 0; k <= corpus.CountLines(base); k++ {
			ctl := api.ReadOutcome(f, bytes.NewReader(corpus.InsertLine(base, k, 4, 'L')))
			if ctl.Class != "ok" {
				continue // a line here changes what the document is: not a position to test
			}
			for li, L := range lim.longLens {
				if L > 1<<17 && k%4 != 0 {
					continue
				}
				name := fmt.Sprintf("longline-%s-insert-before-line%d-len%d", f, k, L)
				p := granPlan((k+li)%3, root.Derive("ll2", k))
				if L > 1<<17 {
					p = granPlan(0, nil)
				}
				if !cfg.Mine(Key64("longline2", name)) {
					continue
				}
				data := corpus.InsertLine(base, k, L, 'L')
				for _, reader := range corpus.ReaderConfigs(f) {
					sc := ReadScenario{Doc: name, Reader: reader, Data: data, Plan: p}
					v, sr := checkC18Read(sc, ctl.Items)
					res.Evaluations++
					res.SimEvents += int64(sr.St.Reads)
					res.Note("ll2", reader, name, planKey(p), fmt.Sprint(v != nil, sr.St.Reads))
					res.Probes["overlong_line_at_every_line_position"]++
					if seen.add(Key64("ll2", reader, name, planKey(p))) {
						res.Distinct++
					}
					if addV(v) {
						return res, nil
					}
				}
			}
		}
	}
	// ---------- C. write faults and fault-free completeness
	var sources []ListSource
	for _, d := range docs {
		if d.Gen && len(sources) > 60 && cfg.Tier != "thorough" {
			continue
		}
		if len(d.Data) > 20000 {
			continue
		}
		sources = append(sources, ListSource{Doc: d.Name, Reader: corpus.ReaderConfigs(d.Format)[0], Data: d.Data})
	}
	for i := 0; i < lim.lists; i++ {
		l := corpus.GenList(root.Derive("list", i), i)
		sources = append(sources, ListSource{Spec: &l})
	}
	// long lists: outputs of tens of kilobytes, so that buffering layers (4 KiB bufio buffers, 64 KiB pipes)
	// inside a writer are crossed several times before a fault arrives
	for _, f := range []string{"srt", "ssa"} {
		d := corpus.Large(f, root.Derive("c18-large-"+f, 0), 60000) // > 512 cues
		sources = append(sources, ListSource{Doc: d.Name, Reader: f, Data: d.Data})
	}
	for si, src := range sources {
		sh := canon.HashBytes(mustJSON(src))
		for _, writer := range api.WriterFormats {
			// every worker runs the fault-free write of every pair (cheap) and then only its share of the fault
			// offsets, so that one long output does not make one worker the straggler; the pair's owner does
			// the fault-free completeness checks
			owner := cfg.Mine(Key64("wsrc", sh, writer))
			sr := root.Derive("c18w-"+writer+"-"+src.Name(), si) // per (source, writer): draws must not depend on the sharding
			cls0, _, w0, cues, tail := evalWriteTail(src, writer, simio.WritePlan{})
			if cls0 != "ok" {
				if owner {
					res.Extra["write_pairs_failing_without_fault"]++
				}
				continue
			}
			if owner {
				res.Extra["write_pairs"]++
				// completeness without fault
				csc := C18Scenario{Kind: "complete", Source: &src, Writer: writer}
				res.Evaluations++
				if seen.add(Key64("complete", sh, writer)) {
					res.Distinct++
				}
				if why := completeSink(writer, w0.Buf, cues, tail); why != "" {
					if addV(checkC18Write(csc)) {
						return res, nil
					}
				}
			}
			// the same pair through a sink that offers the optional interfaces: complete as well, and the same bytes
			if cr, _, wr, cuesR, tailR := evalWriteTail(src, writer, simio.WritePlan{Medium: "rich"}); owner && cr == "ok" {
				res.Evaluations++
				why := completeSink(writer, wr.Buf, cuesR, tailR)
				if why == "" && !bytes.Equal(stlMaskDates(writer, wr.Buf), stlMaskDates(writer, w0.Buf)) {
					why = "the bytes handed to a sink offering io.StringWriter/io.ReaderFrom differ from those handed to a plain io.Writer"
				}
				if why != "" {
					b, _ := json.Marshal(C18Scenario{Kind: "complete", Source: &src, Writer: writer, WMedium: "rich"})
					if addV(&Violation{Property: "C18", Class: "incomplete-output", Signature: fmt.Sprintf("C18 complete %s fault=none incomplete-output", writer),
						Detail: fmt.Sprintf("list=%s writer=%s sink=rich: writer returned nil but %s", src.Name(), writer, why), Scenario: b}) {
						return res, nil
					}
				}
			}
			m := len(w0.Buf)
			// fault offsets: every k, or call boundaries +-1 and a sample
			var ks []int
			if m <= lim.wExhaustive {
				for k := 0; k < m; k++ {
					ks = append(ks, k)
				}
			} else {
				// call boundaries +-1 (all of them up to 48 calls, the first 8, the last 8 and a seeded sample beyond)
				var starts []int
				b := 0
				for _, c := range w0.Calls {
					starts = append(starts, b)
					b += c
				}
				if len(starts) > 48 {
					sel := append([]int(nil), starts[:8]...)
					sel = append(sel, starts[len(starts)-8:]...)
					for i := 0; i < 32; i++ {
						sel = append(sel, starts[sr.Intn(len(starts))])
					}
					starts = sel
				}
				for _, b := range starts {
					for _, d := range []int{-1, 0, 1} {
						if b+d >= 0 && b+d < m {
							ks = append(ks, b+d)
						}
					}
				}
				ks = append(ks, m-1)
				for i := 0; i < lim.wSampled; i++ {
					ks = append(ks, sr.Intn(m))
				}
			}
			bound := map[int]bool{}
			b := 0
			for _, c := range w0.Calls {
				bound[b], bound[b-1], bound[b+1] = true, true, true
				b += c
			}
			for ki, k := range ks {
				if !cfg.Mine(Key64("wk", sh, writer, fmt.Sprint(k))) {
					continue
				}
				var fs []simio.WriteFault
				if lim.allCombos || bound[k] {
					for _, kind := range simio.WriteFaultKinds {
						for _, short := range []bool{true, false} {
							for _, transient := range []bool{false, true} {
								fs = append(fs, simio.WriteFault{Offset: k, Kind: kind, Short: short, Transient: transient})
							}
						}
					}
					// the failing call takes all its bytes and returns the error with the full count (sticky and transient)
					fs = append(fs, simio.WriteFault{Offset: k, Kind: simio.WriteFaultKinds[k%len(simio.WriteFaultKinds)], Full: true},
						simio.WriteFault{Offset: k, Kind: simio.WriteFaultKinds[(k+1)%len(simio.WriteFaultKinds)], Full: true, Transient: true})
				} else {
					fs = append(fs, simio.WriteFault{Offset: k, Kind: simio.WriteFaultKinds[(k/2+ki)%len(simio.WriteFaultKinds)], Short: k%2 == 0, Transient: (k/4+ki)%2 == 1})
				}
				for fi, f := range fs {
					f := f
					medium := ""
					if (k+fi)%2 == 1 {
						medium = "rich"
					}
					sc := C18Scenario{Kind: "write", Source: &src, Writer: writer, WFault: &f, WMedium: medium}
					cls, et, w, _ := evalWrite(src, writer, simio.WritePlan{Fault: &f, Medium: medium})
					if w != nil && w.RichCalls > 0 {
						res.Probes["sink_optional_interface_used"]++
					}
					res.Evaluations++
					res.SimEvents += int64(w.Writes)
					res.Note("w", sh, writer, fmt.Sprint(f), medium, cls, fmt.Sprint(w.Writes, w.FaultFired(), len(w.Buf)))
					if w.FaultFired() {
						res.Faults["write:"+f.Kind]++
						if f.Short {
							res.Probes["short_write"]++
						} else {
							res.Probes["zero_write"]++
						}
						if f.Transient {
							res.Probes["transient_write_fault"]++
						}
						if f.Full {
							res.Probes["full_count_with_error"]++
						}
						if seen.add(Key64("write", sh, writer, fmt.Sprint(f), medium)) {
							res.Distinct++
						}
					}
					if len(res.Samples) < 4 && cfg.Shard == 0 && k > 100 && writer != "srt" {
						res.Samples = append(res.Samples, map[string]interface{}{"kind": "write", "list": src.Name(), "writer": writer, "fault": f, "output_bytes": m, "write_calls": len(w0.Calls), "fired": w.FaultFired(), "outcome": cls, "err": trunc(et, 120)})
					}
					if cls == "panic" || (cls == "ok" && w.FaultFired()) {
						if addV(checkC18Write(sc)) {
							return res, nil
						}
					}
				}
			}
		}
	}
	// ---------- C2. size thresholds inside writers: plain lists of n cues around powers of two and powers of ten.
	// Fault-free completeness through both kinds of sink, and a few fault placements (first byte, middle, last byte,
	// seeded) for the sizes that are cheap to write repeatedly. Only the pair's owner writes (a 100 000-cue TTML
	// document takes a second).
	for _, n := range lim.manySizes {
		src := ListSource{Many: n}
		for _, writer := range api.WriterFormats {
			if !cfg.Mine(Key64("many", fmt.Sprint(n), writer)) {
				continue
			}
			cls0, _, w0, cues, tail := evalWriteTail(src, writer, simio.WritePlan{})
			if cls0 != "ok" {
				res.Extra["write_pairs_failing_without_fault"]++
				continue
			}
			res.Evaluations += 2
			res.Probes["many_cues_completeness"]++
			if seen.add(Key64("many", fmt.Sprint(n), writer)) {
				res.Distinct++
			}
			if why := completeSink(writer, w0.Buf, cues, tail); why != "" {
				if addV(checkC18Write(C18Scenario{Kind: "complete", Source: &src, Writer: writer})) {
					return res, nil
				}
			}
			if cr, _, wr, cuesR, tailR := evalWriteTail(src, writer, simio.WritePlan{Medium: "rich"}); cr == "ok" {
				why := completeSink(writer, wr.Buf, cuesR, tailR)
				if why == "" && !bytes.Equal(stlMaskDates(writer, wr.Buf), stlMaskDates(writer, w0.Buf)) {
					why = "the bytes handed to a sink offering io.StringWriter/io.ReaderFrom differ from those handed to a plain io.Writer"
				}
				if why != "" {
					b, _ := json.Marshal(C18Scenario{Kind: "complete", Source: &src, Writer: writer, WMedium: "rich"})
					if addV(&Violation{Property: "C18", Class: "incomplete-output", Signature: fmt.Sprintf("C18 complete %s fault=none incomplete-output", writer),
						Detail: fmt.Sprintf("list=%s writer=%s sink=rich: writer returned nil but %s", src.Name(), writer, why), Scenario: b}) {
						return res, nil
					}
				}
			}
			if n > 10001 {
				continue
			}
			m := len(w0.Buf)
			sr := root.Derive("c18many-"+writer, n)
			for fi, k := range []int{0, 1, m / 2, m - 4097, m - 4096, m - 2, m - 1, sr.Intn(m), sr.Intn(m)} {
				if k < 0 {
					continue
				}
				f := simio.WriteFault{Offset: k, Kind: simio.WriteFaultKinds[fi%len(simio.WriteFaultKinds)], Short: fi%2 == 0, Full: fi == 6}
				medium := ""
				if fi%3 == 2 {
					medium = "rich"
				}
				cls, _, w, _ := evalWrite(src, writer, simio.WritePlan{Fault: &f, Medium: medium})
				res.Evaluations++
				res.SimEvents += int64(w.Writes)
				res.Note("wm", fmt.Sprint(n), writer, fmt.Sprint(f), medium, cls, fmt.Sprint(w.Writes, w.FaultFired(), len(w.Buf)))
				if w.FaultFired() {
					res.Faults["write:"+f.Kind]++
					res.Probes["many_cues_write_fault"]++
				}
				if cls == "panic" || (cls == "ok" && w.FaultFired()) {
					if addV(checkC18Write(C18Scenario{Kind: "write", Source: &src, Writer: writer, WFault: &f, WMedium: medium})) {
						return res, nil
					}
				}
			}
		}
	}
	// ---------- D. file-level helpers on the real OS
	if p := filepath.Join(cfg.Bins, "astisub-cli"); cfg.Bins != "" {
		if _, err := os.Stat(p); err == nil {
			cliPath = p
		}
	}
	for _, name := range fileCases {
		if !cfg.Mine(Key64("file", name)) {
			continue
		}
		dir, err := os.MkdirTemp(cfg.Scratch, "c18file-")
		if err != nil {
			res.Notes = append(res.Notes, "file cases skipped: "+err.Error())
			break
		}
		v, note := checkC18File(name, dir)
		os.RemoveAll(dir)
		res.Evaluations++
		res.Extra["file_cases_real_os"]++
		if note != "" {
			res.Notes = append(res.Notes, name+": "+note)
		} else if seen.add(Key64("file", name)) {
			res.Distinct++
		}
		if addV(v) {
			return res, nil
		}
	}
	return res, nil
}

func mustJSON(v interface{}) []byte {
	b, err := json.Marshal(v)
	if err != nil {
		panic(err)
	}
	return b
}

// CheckC18Scenario re-evaluates any C18 scenario.
func CheckC18Scenario(sc C18Scenario, scratch string) *Violation {
	switch sc.Kind {
	case "read":
		v, _ := checkC18Read(*sc.Read, -1)
		return v
	case "longline":
		v, _ := checkC18Read(*sc.Read, sc.Cues)
		return v
	case "huge":
		r := *sc.Read
		r.Data = corpus.Large("srt", prng.New(1).Derive("huge", 0), 17<<20).Data
		v, _ := checkC18Read(r, -1)
		return v
	case "write", "complete":
		return checkC18Write(sc)
	case "file":
		dir, err := os.MkdirTemp(scratch, "c18file-")
		if err != nil {
			return nil
		}
		defer os.RemoveAll(dir)
		v, _ := checkC18File(sc.File, dir)
		return v
	}
	return nil
}

func replayC18(cfg Config, rf ReplayFile) (*Violation, error) {
	if p := filepath.Join(cfg.Bins, "astisub-cli"); cfg.Bins != "" {
		if _, err := os.Stat(p); err == nil {
			cliPath = p
		}
	}
	var sc C18Scenario
	if err := json.Unmarshal(rf.Scenario, &sc); err != nil {
		return nil, err
	}
	return CheckC18Scenario(sc, os.TempDir()), nil
}

func minimiseC18(v Violation, budget Deadline) Violation {
	var sc C18Scenario
	if json.Unmarshal(v.Scenario, &sc) != nil {
		return v
	}
	switch sc.Kind {
	case "read":
		check := func(r ReadScenario) *Violation {
			nv, _ := checkC18Read(r, -1)
			if nv != nil && nv.Class != v.Class {
				return nil
			}
			return nv
		}
		m := MinimiseRead(*sc.Read, check, budget)
		if nv, _ := checkC18Read(m, -1); nv != nil {
			return *nv
		}
	case "write":
		// prefer the smallest failing offset and the simplest kind
		best := sc
		for k := 0; k < sc.WFault.Offset && !budget.Passed(); k++ {
			t := sc
			f := *sc.WFault
			f.Offset = k
			t.WFault = &f
			if nv := checkC18Write(t); nv != nil && nv.Class == v.Class {
				best = t
				break
			}
		}
		if nv := checkC18Write(best); nv != nil {
			return *nv
		}
	}
	return v
}
