#!/usr/bin/env python3
"""Generates /verif/benign/<id>/patch.diff: property-PRESERVING changes (refactorings, correct
caches, format-neutral rewrites). bin/benign.sh applies each to a scratch copy and expects the
pinned suite to pass and ALL quick checks to exit 0: the false-alarm regression suite."""
import json, os, re, shutil, subprocess, sys, tempfile
VERIF = os.path.dirname(os.path.dirname(os.path.abspath(__file__)))
M = []
def ben(id, why, *edits): M.append(dict(id=id, why=why, edits=edits))

ben("b-parseduration-locked-memo", "mutex-protected, correctly keyed memo: race free, no residue",
    ("subtitles.go", """func parseDuration(i, millisecondSep string, numberOfMillisecondDigits int) (o time.Duration, err error) {
	// Split milliseconds""", """var (
	parseDurationMemoMu sync.Mutex
	parseDurationMemo   = map[string]time.Duration{}
)

func parseDuration(i, millisecondSep string, numberOfMillisecondDigits int) (o time.Duration, err error) {
	var memoKey = i + "|" + millisecondSep + "|" + strconv.Itoa(numberOfMillisecondDigits)
	parseDurationMemoMu.Lock()
	d, ok := parseDurationMemo[memoKey]
	parseDurationMemoMu.Unlock()
	if ok {
		return d, nil
	}
	defer func() {
		if err == nil {
			parseDurationMemoMu.Lock()
			defer parseDurationMemoMu.Unlock()
			if len(parseDurationMemo) < 4096 {
				parseDurationMemo[memoKey] = o
			}
		}
	}()
	// Split milliseconds"""),
    ("subtitles.go", '\t"strings"\n\t"time"', '\t"strings"\n\t"sync"\n\t"time"'))
ben("b-teletext-charsets-built-once", "sync.Once lazy initialisation of a read-only table copy",
    ("teletext.go", """	// Get charsets
	d.c = *teletextCharsetG0Latin""", """	// Get charsets
	teletextDefaultG0Once.Do(func() {
		teletextDefaultG0 = *teletextCharsetG0Latin
	})
	d.c = teletextDefaultG0"""),
    ("teletext.go", """type teletextCharacterDecoder struct {""", """var (
	teletextDefaultG0Once sync.Once
	teletextDefaultG0     teletextCharset
)

type teletextCharacterDecoder struct {"""),
    ("teletext.go", '\t"strings"\n\t"time"', '\t"strings"\n\t"sync"\n\t"time"'))
ben("b-stl-readnbytes-readatleast", "equivalent refactoring of the block reader",
    ("stl.go", "	for n < c && err == nil {", "	for n < len(o) && err == nil {"))
ben("b-webvtt-writer-bytes-buffer", "writer assembles the document in a bytes.Buffer and hands it over with one checked Write",
    ("webvtt.go", """	// Write
	if _, err = o.Write(c); err != nil {
		err = fmt.Errorf("astisub: writing failed: %w", err)
		return
	}
	return
}

func (l Line) webVTTBytes()""", """	// Write
	var buf = bytes.NewBuffer(make([]byte, 0, len(c)))
	buf.Write(c)
	if _, err = buf.WriteTo(o); err != nil {
		err = fmt.Errorf("astisub: writing failed: %w", err)
		return
	}
	return
}

func (l Line) webVTTBytes()"""),
    ("webvtt.go", 'import (\n\t"errors"', 'import (\n\t"bytes"\n\t"errors"'))
ben("b-ttml-reader-readall-first", "TTML read through io.ReadAll (delivery independent, errors propagated)",
    ("ttml.go", """	if err = xml.NewDecoder(i).Decode(&ttml); err != nil {""", """	var raw []byte
	if raw, err = ioutil.ReadAll(i); err != nil {
		err = fmt.Errorf("astisub: reading failed: %w", err)
		return
	}
	if err = xml.NewDecoder(bytes.NewReader(raw)).Decode(&ttml); err != nil {"""),
    ("ttml.go", 'import (\n\t"encoding/xml"\n\t"fmt"\n\t"io"', 'import (\n\t"bytes"\n\t"encoding/xml"\n\t"fmt"\n\t"io"\n\t"io/ioutil"'))
ben("b-srt-writer-bufio-flush-checked", "bufio.Writer with the Flush error checked",
    ("srt.go", """	if _, err = o.Write(c); err != nil {
		err = fmt.Errorf("astisub: writing failed: %w", err)
		return
	}
	return
}

func (l Line) srtBytes()""", """	var bw = bufio.NewWriterSize(o, 1024)
	if _, err = bw.Write(c); err != nil {
		err = fmt.Errorf("astisub: writing failed: %w", err)
		return
	}
	if err = bw.Flush(); err != nil {
		err = fmt.Errorf("astisub: writing failed: %w", err)
		return
	}
	return
}

func (l Line) srtBytes()"""),
    ("srt.go", 'import (\n\t"fmt"', 'import (\n\t"bufio"\n\t"fmt"'))
ben("b-stl-now-called-once", "the STL writer reads the clock once for both dates",
    ("stl.go", """	// Init
	g = &gsiBlock{
		characterCodeTableNumber: stlCharacterCodeTableNumberLatin,""", """	// Init
	var now = Now()
	g = &gsiBlock{
		characterCodeTableNumber: stlCharacterCodeTableNumberLatin,"""),
    ("stl.go", "		creationDate:             Now(),", "		creationDate:             now,"),
    ("stl.go", "		revisionDate:                                     Now(),", "		revisionDate:                                     now,"))
ben("b-srt-reader-bigger-scanner-buffer", "scanner with a 1 MiB line limit (longer lines accepted, still an error beyond)",
    ("srt.go", """	var scanner = newScanner(i)

	// Scan
	var line string
	var lineNum int
	var s = &Item{}""", """	var scanner = newScanner(i)
	scanner.Buffer(make([]byte, 0, 8192), 1<<20)

	// Scan
	var line string
	var lineNum int
	var s = &Item{}"""))
ben("b-ssa-writer-single-write", "SSA writer assembles everything and issues one checked Write",
    ("ssa.go", """	var si = newSSAScriptInfo(s.Metadata)
	if _, err = o.Write(si.bytes()); err != nil {
		err = fmt.Errorf("astisub: writing script info block failed: %w", err)
		return
	}
""", """	var si = newSSAScriptInfo(s.Metadata)
	var all = si.bytes()
	var out = o
	o = &ssaCollector{b: &all}
	defer func() {
		if err == nil {
			if _, err = out.Write(all); err != nil {
				err = fmt.Errorf("astisub: writing failed: %w", err)
			}
		}
	}()
"""),
    ("ssa.go", """// SSAOptions
type SSAOptions struct {""", """type ssaCollector struct{ b *[]byte }

func (c *ssaCollector) Write(p []byte) (int, error) {
	*c.b = append(*c.b, p...)
	return len(p), nil
}

// SSAOptions
type SSAOptions struct {"""))

ben("b-ssa-stringwriter-fast-path-checked", "io.StringWriter fast path with the error checked",
    ("ssa.go", """		// Write
		if _, err = o.Write(b); err != nil {
			err = fmt.Errorf("astisub: writing styles block failed: %w", err)
			return
		}""", """		// Write
		if sw, ok := o.(io.StringWriter); ok {
			_, err = sw.WriteString(string(b))
		} else {
			_, err = o.Write(b)
		}
		if err != nil {
			err = fmt.Errorf("astisub: writing styles block failed: %w", err)
			return
		}"""))
ben("b-stl-dates-formatted-in-utc", "GSI dates formatted through .UTC(): same bytes for UTC inputs, no dependence on the process zone",
    ("stl.go", """b.creationDate.Format("060102")""", """b.creationDate.UTC().Format("060102")"""),
    ("stl.go", """b.revisionDate.Format("060102")""", """b.revisionDate.UTC().Format("060102")"""))
ben("b-write-openfile-trunc", "Subtitles.Write opens the destination with O_TRUNC explicitly",
    ("subtitles.go", """	if f, err = os.Create(dst); err != nil {""", """	if f, err = os.OpenFile(dst, os.O_WRONLY|os.O_CREATE|os.O_TRUNC, 0666); err != nil {"""))
ben("b-webvtt-pooled-buffer-correct", "sync.Pool buffer, reset on get, returned only after the write",
    ("webvtt.go", """	// Add header
	var c []byte
	c = append(c, []byte("WEBVTT")...)""", """	// Add header
	var cp = webvttBufferPool.Get().(*[]byte)
	var c = (*cp)[:0]
	defer func() {
		*cp = c[:0]
		webvttBufferPool.Put(cp)
	}()
	c = append(c, []byte("WEBVTT")...)"""),
    ("webvtt.go", """// WriteToWebVTT writes subtitles in .vtt format""", """var webvttBufferPool = sync.Pool{New: func() interface{} { b := make([]byte, 0, 4096); return &b }}

// WriteToWebVTT writes subtitles in .vtt format"""),
    ("webvtt.go", '\t"strings"\n\t"time"', '\t"strings"\n\t"sync"\n\t"time"'))
ben("b-scanner-initial-buffer-8k", "line scanner starts with an 8 KiB buffer (same 64 KiB limit)",
    ("subtitles.go", """	var scanner = bufio.NewScanner(i)
	scanner.Split(""", """	var scanner = bufio.NewScanner(i)
	scanner.Buffer(make([]byte, 0, 8192), bufio.MaxScanTokenSize)
	scanner.Split("""))
ben("b-teletext-decoder-table-by-value-copy", "decoder copies the G0 table through an intermediate value (still a per-call copy)",
    ("teletext.go", """			d.c = *v2.g0
			nationalOptionSubset = v2.national""", """			var g0 = *v2.g0
			d.c = g0
			nationalOptionSubset = v2.national"""))

def main():
    out_root = os.path.join(VERIF, "benign")
    base = tempfile.mkdtemp(prefix="mkben-", dir="/var/tmp")
    try:
        clean = os.path.join(base, "a"); os.makedirs(clean)
        subprocess.check_call("git -C /repo archive HEAD | tar -x -C %s" % clean, shell=True)
        rc = 0
        for m in M:
            work = os.path.join(base, "b"); shutil.rmtree(work, ignore_errors=True); shutil.copytree(clean, work)
            bad = False
            for (f, old, new) in m["edits"]:
                p = os.path.join(work, f); s = open(p).read()
                if s.count(old) != 1:
                    print("ANCHOR MISMATCH (%d): %s %s %r" % (s.count(old), m["id"], f, old[:50])); bad = True; break
                open(p, "w").write(s.replace(old, new))
            if bad: rc = 1; continue
            subprocess.call(["gofmt", "-w"] + [os.path.join(work, f) for f in sorted({e[0] for e in m["edits"]})])
            d = subprocess.run(["diff", "-u", "-r", "-N", "a", "b"], cwd=base, capture_output=True, text=True).stdout
            d = re.sub(r"(?m)^(--- a/\S+|\+\+\+ b/\S+)\t.*$", r"\1", d)
            odir = os.path.join(out_root, m["id"]); os.makedirs(odir, exist_ok=True)
            open(os.path.join(odir, "patch.diff"), "w").write(d)
            json.dump({"id": m["id"], "why_benign": m["why"]}, open(os.path.join(odir, "meta.json"), "w"), indent=1)
            print("wrote", m["id"])
        return rc
    finally:
        shutil.rmtree(base, ignore_errors=True)
if __name__ == "__main__":
    sys.exit(main())
