#!/usr/bin/env python3
"""Generates /verif/mutants/<id>/{patch.diff,meta.json} from the edit list below.

Every mutant is a deliberate breakage of one claimed property that still
compiles and passes the pinned suite (bin/mutants.sh verifies both). Edits are
(file, old, new) string replacements against /repo's HEAD; the script fails
loudly when an anchor no longer matches, so the list cannot rot silently.
Nothing is ever written to /repo.
"""
import json, os, shutil, subprocess, sys, tempfile

VERIF = os.path.dirname(os.path.dirname(os.path.abspath(__file__)))
M = []

def mut(id, prop, needs, *edits, also=None):
    M.append(dict(id=id, prop=prop, needs=needs, edits=edits, also=also or []))

# ------------------------------------------------------------------ C17
mut("m17-revert-d1-scanner-cr", "C17", "a CR LF pair cut between two reads",
    ("subtitles.go", """				if !atEOF {
					return 0, nil, nil
				}
""", ""))
mut("m17-revert-d9-final-line-at-the-limit", "C17", "a final unterminated line of exactly 65536 bytes with the last bytes delivered together with io.EOF",
    ("subtitles.go", """			// The scanner would have failed if the end of the stream had not
			// been delivered along with those bytes
			if len(data) >= bufio.MaxScanTokenSize {
				return 0, nil, bufio.ErrTooLong
			}
			return len(data), data, nil""", """			return len(data), data, nil"""))
mut("m17-revert-d2-stl-single-read", "C17", "an STL block delivered in two reads",
    ("stl.go", "	for n < c && err == nil {", "	for first := true; first; first = false {"),
    ("stl.go", "	if err != nil {\n		if err == io.EOF {\n			// Nothing left to read", "	if err == nil && n < c {\n		err = io.EOF\n	}\n	if err != nil {\n		if err == io.EOF {\n			// Nothing left to read"), also=["C18"])
mut("m18-revert-d10-stl-readfull-drops-error", "C18", "a read error returned together with the last bytes of an STL block, after which the stream just ends",
    ("stl.go", "	for n < c && err == nil {\n		var m int\n		m, err = i.Read(o[n:])\n		n += m\n	}", "	if n, err = io.ReadFull(i, o); err == io.ErrUnexpectedEOF {\n		err = io.EOF\n	}"))
mut("m17-revert-d4-teletext-raw-reader", "C17", "first read of a transport stream shorter than 193 bytes",
    ("teletext.go", "	var dmx = astits.NewDemuxer(context.Background(), rd)", "	_ = rd\n	var dmx = astits.NewDemuxer(context.Background(), r)"))
mut("m17-bom-detected-with-one-raw-read", "C17", "a split inside the 3-byte BOM",
    ("srt.go", """	o = NewSubtitles()
	var scanner = newScanner(i)
""", """	o = NewSubtitles()
	// Skip the BOM header
	var bom = make([]byte, len(BytesBOM))
	var nb, _ = i.Read(bom)
	if !bytes.Equal(bom[:nb], BytesBOM) {
		i = io.MultiReader(bytes.NewReader(bom[:nb]), i)
	}
	var scanner = newScanner(i)
"""),
    ("srt.go", """		if lineNum == 1 {
			line = strings.TrimPrefix(line, string(BytesBOM))
		}
""", ""),
    ("srt.go", 'import (\n\t"fmt"', 'import (\n\t"bytes"\n\t"fmt"'))
mut("m17-stl-tti-short-read-is-eof", "C17", "a TTI block delivered in two reads (treated as end of file)",
    ("stl.go", """		if b, err = readNBytes(i, stlBlockSizeTTI); err != nil {""", """		b = make([]byte, stlBlockSizeTTI)
		var nTTI int
		if nTTI, err = i.Read(b); err == nil && nTTI < stlBlockSizeTTI {
			err = io.EOF
		}
		if err != nil {"""), also=["C18"])
mut("m17-teletext-drops-data-returned-with-eof", "C17", "the last bytes of a transport stream returned together with io.EOF",
    ("teletext.go", """		nn, err = r.r.Read(p[n:])
		n += nn
	}""", """		nn, err = r.r.Read(p[n:])
		if err == nil {
			n += nn
		}
	}"""))
mut("m17-ttml-single-big-read", "C17", "a TTML document delivered in more than one read",
    ("ttml.go", """	if err = xml.NewDecoder(i).Decode(&ttml); err != nil {""", """	var raw = make([]byte, 1<<20)
	var nRaw, _ = i.Read(raw)
	if err = xml.Unmarshal(raw[:nRaw], &ttml); err != nil {"""), also=["C18"])
mut("m17-webvtt-bom-skipped-with-one-raw-read", "C17", "a split inside the 3-byte BOM of a WebVTT document",
    ("webvtt.go", """	o = NewSubtitles()
	var scanner = newScanner(i)
""", """	o = NewSubtitles()
	// Skip the BOM header
	var bom = make([]byte, len(BytesBOM))
	var nb, _ = i.Read(bom)
	if !bytes.Equal(bom[:nb], BytesBOM) {
		i = io.MultiReader(bytes.NewReader(bom[:nb]), i)
	}
	var scanner = newScanner(i)
"""),
    ("webvtt.go", """		line = strings.TrimPrefix(line, string(BytesBOM))
""", ""),
    ("webvtt.go", 'import (\n\t"errors"', 'import (\n\t"bytes"\n\t"errors"'))

# ------------------------------------------------------------------ C18
mut("m18-srt-drops-scanner-err", "C18", "a read error in the middle of an SRT stream",
    ("srt.go", """	if err = scanner.Err(); err != nil {
		err = fmt.Errorf("astisub: scanning failed: %w", err)
		return
	}
""", ""))
mut("m18-ssa-scanner-err-only-toolong", "C18", "a read error (not an over-long line) in an SSA stream",
    ("ssa.go", """	if err = scanner.Err(); err != nil {
		err = fmt.Errorf("astisub: scanning failed: %w", err)
		return
	}
""", """	if err = scanner.Err(); err != nil && err != bufio.ErrTooLong {
		err = nil
	} else if err != nil {
		err = fmt.Errorf("astisub: scanning failed: %w", err)
		return
	}
"""),
    ("ssa.go", 'import (\n\t"fmt"', 'import (\n\t"bufio"\n\t"fmt"'))
mut("m18-stl-tti-read-error-is-eof", "C18", "a source error while reading a TTI block",
    ("stl.go", """			if err == io.EOF {
				err = nil
				break
			}
			return
		}

		// Parse TTI block""", """			// Keep what has been parsed so far
			err = nil
			break
		}

		// Parse TTI block"""), also=["C17"])
mut("m18-ttml-ignores-decode-error-after-first-p", "C18", "a source error after at least one <p> was decoded",
    ("ttml.go", """	if err = xml.NewDecoder(i).Decode(&ttml); err != nil {""", """	if err = xml.NewDecoder(i).Decode(&ttml); err != nil && len(ttml.Subtitles) == 0 {"""))
mut("m18-ssa-events-write-error-ignored", "C18", "a sink failure inside the [Events] block",
    ("ssa.go", """		if _, err = o.Write(b); err != nil {
			err = fmt.Errorf("astisub: writing events block failed: %w", err)
			return
		}""", """		_, _ = o.Write(b)"""))
mut("m18-stl-second-tti-write-error-ignored", "C18", "a sink failure inside the second TTI block",
    ("stl.go", """		if _, err = o.Write(newTTIBlock(item, idx+1).bytes(g)); err != nil {""", """		if _, err = o.Write(newTTIBlock(item, idx+1).bytes(g)); err != nil && idx != 1 {"""),
    ("stl.go", """			err = fmt.Errorf("astisub: writing tti block #%d failed: %w", idx+1, err)
			return
		}""", """			err = fmt.Errorf("astisub: writing tti block #%d failed: %w", idx+1, err)
			return
		}
		err = nil"""))
mut("m18-srt-bufio-flush-error-ignored", "C18", "a sink failure while writing an SRT document smaller than the bufio buffer",
    ("srt.go", """	if _, err = o.Write(c); err != nil {
		err = fmt.Errorf("astisub: writing failed: %w", err)
		return
	}
	return
}

func (l Line) srtBytes()""", """	var bw = bufio.NewWriter(o)
	if _, err = bw.Write(c); err != nil {
		err = fmt.Errorf("astisub: writing failed: %w", err)
		return
	}
	bw.Flush()
	return
}

func (l Line) srtBytes()"""),
    ("srt.go", 'import (\n\t"fmt"', 'import (\n\t"bufio"\n\t"fmt"'))
mut("m18-webvtt-short-write-accepted", "C18", "a sink that accepts only part of the document",
    ("webvtt.go", """	if _, err = o.Write(c); err != nil {
		err = fmt.Errorf("astisub: writing failed: %w", err)
		return
	}
	return
}""", """	var written int
	if written, err = o.Write(c); err != nil && written == 0 {
		err = fmt.Errorf("astisub: writing failed: %w", err)
		return
	}
	err = nil
	return
}"""))
mut("m18-open-returns-empty-on-open-error", "C18", "OpenFile on a missing path",
    ("subtitles.go", """	if f, err = os.Open(o.Filename); err != nil {
		err = fmt.Errorf("astisub: opening %s failed: %w", o.Filename, err)
		return
	}""", """	if f, err = os.Open(o.Filename); err != nil {
		if os.IsNotExist(err) {
			return NewSubtitles(), nil
		}
		err = fmt.Errorf("astisub: opening %s failed: %w", o.Filename, err)
		return
	}"""))
mut("m18-teletext-nextdata-error-ends-stream", "C18", "a source error in the middle of a transport stream",
    ("teletext.go", """			err = fmt.Errorf("astisub: fetching next data failed: %w", err)
			return
		}

		// We only parse PES data""", """			// Keep the pages parsed so far
			err = nil
			break
		}

		// We only parse PES data"""))
mut("m18-revert-d5-teletext-unexpected-eof", "C18", "a source failing with io.ErrUnexpectedEOF in a transport stream",
    ("teletext.go", """				if tr.err != nil {
					err = fmt.Errorf("astisub: reading failed: %w", tr.err)
					return
				}
""", ""))
mut("m18-revert-d8-timing-line-panic", "C18", "a source failing right after the --> of a timing line",
    ("srt.go", """			if len(s2) == 0 {
				err = fmt.Errorf("astisub: line %d: time boundaries has no end", lineNum)
				return
			}
""", ""))
mut("m18-ttml-write-encode-error-only-logged", "C18", "a sink failure during TTML encoding",
    ("ttml.go", """	if err = e.Encode(ttml); err != nil {
		err = fmt.Errorf("astisub: xml encoding failed: %w", err)
		return
	}""", """	if err = e.Encode(ttml); err != nil {
		log.Printf("astisub: xml encoding failed: %v", err)
		err = nil
	}"""),
    ("ttml.go", 'import (\n\t"encoding/xml"\n\t"fmt"\n\t"io"', 'import (\n\t"encoding/xml"\n\t"fmt"\n\t"io"\n\t"log"'))

mut("m18-ssa-stringwriter-fast-path-drops-error", "C18", "a sink that offers io.StringWriter and fails inside the styles block",
    ("ssa.go", """		// Write
		if _, err = o.Write(b); err != nil {
			err = fmt.Errorf("astisub: writing styles block failed: %w", err)
			return
		}""", """		// Write
		if sw, ok := o.(io.StringWriter); ok {
			sw.WriteString(string(b))
		} else if _, err = o.Write(b); err != nil {
			err = fmt.Errorf("astisub: writing styles block failed: %w", err)
			return
		}"""))

mut("m18-cli-convert-ignores-write-error", "C18", "the command line tool converting to a destination that cannot be written",
    ("astisub/main.go", """	case "convert":
		// Write
		if err = sub.Write(*outputPath); err != nil {
			log.Fatalf("%s while writing to %s", err, *outputPath)
		}""", """	case "convert":
		// Write
		if err = sub.Write(*outputPath); err != nil {
			log.Printf("%s while writing to %s", err, *outputPath)
		}"""))

# ------------------------------------------------------------------ C19
mut("m19-revert-d6-ssa-format-map-order", "C19", "styles with different attribute sets and a non-sorted map order",
    ("ssa.go", """		for _, id := range styleIDs {
			var ss = newSSAStyleFromStyle(*s.Styles[id])""", """		for _, s := range s.Styles {
			var ss = newSSAStyleFromStyle(*s)"""),
    ("ssa.go", """		var styleIDs []string
		for id := range s.Styles {
			styleIDs = append(styleIDs, id)
		}
		sort.Strings(styleIDs)
""", ""))
mut("m19-revert-d7-webvtt-style-map-order", "C19", "WebVTT style blocks spread over several styles and a non-sorted map order",
    ("webvtt.go", """	sort.Strings(styleIDs)
	for _, id := range styleIDs {""", """	for _, id := range styleIDs {"""))
mut("m19-ttml-styles-sorted-only-when-few", "C19", "> 3 styles and a non-sorted map order",
    ("ttml.go", """		k = append(k, style.ID)
	}
	sort.Strings(k)""", """		k = append(k, style.ID)
	}
	if len(k) <= 3 {
		sort.Strings(k)
	}"""))
mut("m19-webvtt-regions-sorted-only-when-few", "C19", "> 2 regions and a non-sorted map order",
    ("webvtt.go", """	sort.Strings(k)
	for _, id := range k {
		c = append(c, []byte("Region: id="+s.Regions[id].ID)...)""", """	if len(k) <= 2 {
		sort.Strings(k)
	}
	for _, id := range k {
		c = append(c, []byte("Region: id="+s.Regions[id].ID)...)"""))
mut("m19-ssa-style-lines-not-sorted", "C19", ">= 2 styles and a non-sorted map order",
    ("ssa.go", """		sort.Strings(styleNames)
		for _, n := range styleNames {""", """		for n := range styles {"""))
mut("m19-srt-writer-renumbers-index", "C19", "a cue whose Index differs from its position; observed on the list after writing",
    ("srt.go", """	for k, v := range s.Items {
		// Add time boundaries""", """	for k, v := range s.Items {
		v.Index = k + 1
		// Add time boundaries"""))
mut("m19-webvtt-writer-trims-comments-in-place", "C19", "a cue comment with surrounding white space; observed on the list after writing / by the next writer",
    ("webvtt.go", """			for _, comment := range item.Comments {
				c = append(c, []byte(comment)...)""", """			for idxComment, comment := range item.Comments {
				comment = strings.TrimSpace(comment)
				item.Comments[idxComment] = comment
				c = append(c, []byte(comment)...)"""))
mut("m19-stl-writer-uses-real-clock", "C19", "metadata without dates and a simulated clock that is not today",
    ("stl.go", """		creationDate:             Now(),""", """		creationDate:             time.Now(),"""))
mut("m19-stl-writer-ignores-lone-revision-date", "C19", "metadata with a revision date but no creation date, and two different clock values",
    ("stl.go", """		if s.Metadata.STLRevisionDate != nil {
			g.revisionDate = *s.Metadata.STLRevisionDate
		}""", """		if s.Metadata.STLRevisionDate != nil && s.Metadata.STLCreationDate != nil {
			g.revisionDate = *s.Metadata.STLRevisionDate
		}"""))
mut("m19-ttml-pointer-derived-id", "C19", "a cue with comments, and two builds of the same list (different addresses)",
    ("ttml.go", """			TTMLOutStyleAttributes: ttmlOutStyleAttributesFromStyleAttributes(item.InlineStyle),
		}
""", """			TTMLOutStyleAttributes: ttmlOutStyleAttributesFromStyleAttributes(item.InlineStyle),
		}
		if len(item.Comments) > 0 {
			ttmlSubtitle.ID = fmt.Sprintf("s%x", uintptr(unsafe.Pointer(item))&0xffff)
		}
"""),
    ("ttml.go", 'import (\n\t"encoding/xml"', 'import (\n\t"unsafe"\n\t"encoding/xml"'))
mut("m19-stl-creation-date-memoised", "C19", "a second STL write after the clock moved to another day",
    ("stl.go", """		creationDate:             Now(),""", """		creationDate:             stlToday(),"""),
    ("stl.go", """// newGSIBlock builds the subtitles GSI block""", """var stlTodayCache time.Time

func stlToday() time.Time {
	if stlTodayCache.IsZero() {
		stlTodayCache = Now()
	}
	return stlTodayCache
}

// newGSIBlock builds the subtitles GSI block"""), also=["C20"])
mut("m19-ssa-writer-normalises-style-ids", "C19", "a style whose ID has surrounding spaces or a leading *; observed on the list after writing",
    ("ssa.go", """func newSSAStyleFromStyle(i Style) *ssaStyle {
	return &ssaStyle{""", """func newSSAStyleFromStyle(i Style) *ssaStyle {
	if i.InlineStyle != nil && i.InlineStyle.SSAFontName == "" {
		i.InlineStyle.SSAFontName = "Arial"
	}
	return &ssaStyle{"""))

# ------------------------------------------------------------------ C20
mut("m20-teletext-patches-shared-g0-table", "C20", "two teletext reads with different national option subsets (concurrently or one after the other)",
    ("teletext.go", """		for k, v := range nationalOptionSubset {
			d.c[teletextNationalSubsetCharactersPositionInG0[k]] = v
		}""", """		for k, v := range nationalOptionSubset {
			teletextCharsetG0Latin[teletextNationalSubsetCharactersPositionInG0[k]] = v
		}
		d.c = *teletextCharsetG0Latin"""))
mut("m20-parseduration-unlocked-memo", "C20", "two goroutines parsing durations at the same time (map written without a lock)",
    ("subtitles.go", """func parseDuration(i, millisecondSep string, numberOfMillisecondDigits int) (o time.Duration, err error) {
	// Split milliseconds""", """var parseDurationMemo = map[string]time.Duration{}

func parseDuration(i, millisecondSep string, numberOfMillisecondDigits int) (o time.Duration, err error) {
	var memoKey = i + millisecondSep + strconv.Itoa(numberOfMillisecondDigits)
	if d, ok := parseDurationMemo[memoKey]; ok {
		return d, nil
	}
	defer func() {
		if err == nil && len(parseDurationMemo) < 4096 {
			parseDurationMemo[memoKey] = o
		}
	}()
	// Split milliseconds"""))
mut("m20-srt-writer-shared-scratch-buffer", "C20", "two SRT writes overlapping in time",
    ("srt.go", """	// Add BOM header
	var c []byte
	c = append(c, BytesBOM...)""", """	// Add BOM header
	var c = srtScratch[:0]
	c = append(c, BytesBOM...)"""),
    ("srt.go", """// WriteToSRT writes subtitles in .srt format""", """var srtScratch = make([]byte, 0, 64*1024)

// WriteToSRT writes subtitles in .srt format"""))
mut("m20-stl-shared-character-handler", "C20", "two STL reads overlapping in time with floating diacritics pending",
    ("stl.go", """	if v, ok := stlCharacterCodeTables[characterCodeTable]; ok {
		return &stlCharacterHandler{
			c: characterCodeTable,
			m: v,
		}, nil
	}""", """	if h, ok := stlCharacterHandlers[characterCodeTable]; ok {
		return h, nil
	}
	if v, ok := stlCharacterCodeTables[characterCodeTable]; ok {
		stlCharacterHandlers[characterCodeTable] = &stlCharacterHandler{
			c: characterCodeTable,
			m: v,
		}
		return stlCharacterHandlers[characterCodeTable], nil
	}"""),
    ("stl.go", """type stlCharacterHandler struct {""", """var stlCharacterHandlers = map[uint16]*stlCharacterHandler{}

type stlCharacterHandler struct {"""))
mut("m20-stl-writer-reassigns-now", "C20", "an STL write overlapping any other call that reads the clock variable",
    ("stl.go", """	// Write GSI block
	var g = newGSIBlock(s)""", """	// Make sure creation and revision dates are the same
	var previousNow = Now
	var t = previousNow()
	Now = func() time.Time { return t }
	defer func() { Now = previousNow }()

	// Write GSI block
	var g = newGSIBlock(s)"""))
mut("m20-unsynchronised-read-counter", "C20", "two SRT reads overlapping in time",
    ("srt.go", """	o = NewSubtitles()
	var scanner = newScanner(i)
""", """	o = NewSubtitles()
	srtReads++
	var scanner = newScanner(i)
"""),
    ("srt.go", """// ReadFromSRT parses an .srt content""", """var srtReads int

// ReadFromSRT parses an .srt content"""))
mut("m20-ttml-mutex-protected-last-tickrate", "C20", "a TTML read of a document with tick times but no tickRate after (or while) another document with a tickRate was read (race free, residue only)",
    ("ttml.go", """	// Add metadata
	o.Metadata = ttml.metadata()
""", """	// Segments of one stream do not always repeat the tick rate
	ttmlLastTickrateMu.Lock()
	if ttml.Tickrate > 0 {
		ttmlLastTickrate = ttml.Tickrate
	} else if ttmlLastTickrate > 0 {
		ttml.Tickrate = ttmlLastTickrate
	}
	ttmlLastTickrateMu.Unlock()

	// Add metadata
	o.Metadata = ttml.metadata()
"""),
    ("ttml.go", """// ReadFromTTML parses a .ttml content""", """var (
	ttmlLastTickrateMu sync.Mutex
	ttmlLastTickrate   int
)

// ReadFromTTML parses a .ttml content"""),
    ("ttml.go", '\t"strings"\n\t"time"', '\t"strings"\n\t"sync"\n\t"time"'))

mut("m20-ttml-shared-regexp-scratch", "C20", "two TTML reads with clock-time-with-frames expressions overlapping in time",
    ("ttml.go", """	// Extract clock time frames
	if indexes := ttmlRegexpClockTimeFrames.FindStringIndex(text); indexes != nil {""", """	// Extract clock time frames
	ttmlLastIndexes = ttmlRegexpClockTimeFrames.FindStringIndex(text)
	if indexes := ttmlLastIndexes; indexes != nil {"""),
    ("ttml.go", """// TTMLInDuration represents an input TTML duration""", """var ttmlLastIndexes []int

// TTMLInDuration represents an input TTML duration"""))
mut("m20-html-unescape-lazy-init", "C20", "first concurrent use of unescapeHTML by two goroutines (lazy init without sync.Once)",
    ("subtitles.go", """func unescapeHTML(i string) string {
	return htmlUnescaper.Replace(i)
}""", """var htmlUnescaperLazy *strings.Replacer

func unescapeHTML(i string) string {
	if htmlUnescaperLazy == nil {
		htmlUnescaperLazy = strings.NewReplacer("&amp;", "&", "&lt;", "<", "&nbsp;", "\\u00A0")
	}
	return htmlUnescaperLazy.Replace(i)
}"""))


def main():
    out_root = os.path.join(VERIF, "mutants")
    only = set(sys.argv[1:])
    base = tempfile.mkdtemp(prefix="mkmut-", dir="/var/tmp")
    try:
        clean = os.path.join(base, "a")
        os.makedirs(clean)
        subprocess.check_call("git -C /repo archive HEAD | tar -x -C %s" % clean, shell=True)
        ok = True
        for m in M:
            if only and m["id"] not in only:
                continue
            work = os.path.join(base, "b")
            shutil.rmtree(work, ignore_errors=True)
            shutil.copytree(clean, work)
            bad = False
            for (f, old, new) in m["edits"]:
                p = os.path.join(work, f)
                s = open(p).read()
                if s.count(old) != 1:
                    print("ANCHOR MISMATCH (%d matches): %s %s: %r" % (s.count(old), m["id"], f, old[:60]))
                    bad = True
                    break
                open(p, "w").write(s.replace(old, new))
            if bad:
                ok = False
                continue
            subprocess.call(["gofmt", "-w"] + [os.path.join(work, f) for f in sorted({e[0] for e in m["edits"]})])
            d = subprocess.run(["diff", "-u", "-r", "-N", "a", "b"], cwd=base, capture_output=True, text=True).stdout
            import re
            d = re.sub(r"(?m)^(--- a/\S+|\+\+\+ b/\S+)\t.*$", r"\1", d)
            odir = os.path.join(out_root, m["id"])
            os.makedirs(odir, exist_ok=True)
            open(os.path.join(odir, "patch.diff"), "w").write(d)
            json.dump({"id": m["id"], "property": m["prop"], "also_run": m["also"], "needs": m["needs"], "origin": "own (DESIGN.md section 5)"},
                      open(os.path.join(odir, "meta.json"), "w"), indent=1)
            print("wrote", m["id"])
        return 0 if ok else 1
    finally:
        shutil.rmtree(base, ignore_errors=True)

if __name__ == "__main__":
    sys.exit(main())
