#!/usr/bin/env bash
# Sensitivity run: applies every kept breaking change (own mutants under
# /verif/mutants/<id>/ and sub-agent changes under /verif/seeded/<id>/) to a
# scratch copy of /repo - never to /repo itself -, confirms that the pinned
# suite still passes there, runs the quick check of the property the change
# breaks (VERIF_REPO=<copy>) and expects exit 1 with a VIOLATION line whose
# replay file reproduces on the copy and does not reproduce on /repo.
#
#   bin/mutants.sh [-t tier] [-k] [id-glob ...]      (default: all)      -k: keep going, summary at the end
set -u
VERIF="$(cd "$(dirname "${BASH_SOURCE[0]}")/.." && pwd)"
. "$VERIF/env.sh"
TIER=quick
while getopts "t:k" o; do case $o in t) TIER="$OPTARG";; k) : ;; esac; done; shift $((OPTIND-1))
ROOT="${VERIF_SCRATCH:-/var/tmp}"
W="$(mktemp -d "$ROOT/verif-mutants.XXXXXX")"
trap 'rm -rf "$W"' EXIT
pats=("$@"); [ ${#pats[@]} -eq 0 ] && pats=("*")
caught=0; missed=0; broken=0
printf "%-34s %-5s %-9s %-8s %s\n" id prop suite check replay
for dir in "$VERIF"/mutants/*/ "$VERIF"/seeded/*/; do
  [ -f "$dir/patch.diff" ] || continue
  id="$(basename "$dir")"
  match=0; for p in "${pats[@]}"; do case "$id" in $p) match=1;; esac; done; [ $match = 1 ] || continue
  prop="$(jq -r .property "$dir/meta.json" 2>/dev/null)"
  also="$(jq -r '.also_run // [] | join(" ")' "$dir/meta.json" 2>/dev/null)"
  rm -rf "$W/repo"; mkdir -p "$W/repo"
  base="$(jq -r '.base_commit // "HEAD"' "$dir/meta.json" 2>/dev/null)"; [ -n "$base" ] || base=HEAD   # sub-agent changes apply to the commit they were made against
  (cd /repo && git archive "$base") | tar -x -C "$W/repo"
  if ! (cd "$W/repo" && patch -p1 -s < "$dir/patch.diff") >"$W/apply.log" 2>&1; then
    printf "%-34s %-5s %s\n" "$id" "$prop" "PATCH-DOES-NOT-APPLY"; broken=$((broken+1)); continue
  fi
  rm -rf "$W/repo/.git"
  if (cd "$W/repo" && go test -vet=off -count=1 ./... >"$W/suite.log" 2>&1); then suite=pass; else suite=FAIL; fi
  verdict=missed; rp="-"
  for pr in $prop $also; do
    out="$(VERIF_REPO="$W/repo" VERIF_TIER="$TIER" "$VERIF/bin/check" run "$pr" 2>"$W/check.err")"; rc=$?
    if [ $rc = 1 ] && echo "$out" | grep -q "^VIOLATION property=$pr "; then
      verdict="caught($pr)"
      file="$(echo "$out" | grep "^VIOLATION property=$pr " | head -1 | sed 's/.*replay=//')"
      VERIF_REPO="$W/repo" "$VERIF/bin/check" replay "$file" >"$W/replay1.log" 2>&1; r1=$?
      "$VERIF/bin/check" replay "$file" >"$W/replay2.log" 2>&1; r2=$?
      rp="mut=$r1,clean=$r2"
      cp "$file" "$dir/replay.json" 2>/dev/null
      echo "$out" | grep -E "^violation:|^  " | head -6 | cut -c1-400 > "$dir/last_report.txt"
      break
    elif [ $rc = 2 ]; then verdict="check-exit-2($pr)"; tail -3 "$W/check.err" | cut -c1-300
    fi
  done
  case "$verdict" in caught*) caught=$((caught+1));; *) missed=$((missed+1));; esac
  printf "%-34s %-5s %-9s %-8s %s\n" "$id" "$prop" "$suite" "$verdict" "$rp"
  # keep the latest verdict per id (committed: DESIGN.md section 9 quotes this file)
  R="$VERIF/sensitivity_results.tsv"; touch "$R"
  grep -v "^$id	" "$R" > "$W/results.new" || true
  printf "%s\t%s\t%s\t%s\t%s\t%s\t%s\n" "$id" "$prop" "$suite" "$verdict" "$rp" "$TIER" "$(git -C "$VERIF" rev-parse --short HEAD 2>/dev/null)" >> "$W/results.new"
  sort "$W/results.new" > "$R"
done
echo "mutants: caught=$caught missed=$missed broken=$broken"
