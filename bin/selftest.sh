#!/usr/bin/env bash
# Determinism self-test of the simulator (called by bin/check selftest).
#   selftest.sh <dir with built binaries> <repo> <number of seeds>
# For every seed and property the reduced "smoke" workload is run three times in
# separate process trees with different worker counts and GOMAXPROCS values; the
# digests (order-independent sums over every evaluation's item key, outcome and
# event counts; for C20 every phase's full (task, site) park trace and step
# records) must be identical. Exit 0: all equal; 3: a divergence was found.
set -u
S="$1"; REPO="$2"; N="${3:-60}"
. "$(dirname "$0")/../env.sh"
INSTFLAGS=()
BIN="$S/simcheck.plain"
if [ -x "$S/simcheck.inst" ]; then BIN="$S/simcheck.inst"; INSTFLAGS=(-inst -sites "$S/sites.json"); fi
one() { # prop seed workers gomaxprocs -> digest line
  local prop="$1" seed="$2" w="$3" g="$4" bin="$BIN" flags=("${INSTFLAGS[@]}")
  case "$prop" in C17|C18) bin="$S/simcheck.plain"; flags=() ;; esac
  GOMAXPROCS="$g" "$bin" -mode parent -prop "$prop" -tier smoke -seed "$seed" -repo "$REPO" -workers "$w" -scratch "$S" -bins "$S" \
      -evidence "" -replays "$S/replays-selftest" -known /dev/null "${flags[@]}" 2>/dev/null \
    | grep -o "evaluations=[0-9]* distinct_nontrivial=[0-9]* violations=[0-9]* known=[0-9]* inconclusive=[0-9]* digest=[0-9a-f]*"
}
export -f one; export S REPO BIN; export INSTFLAGS_STR="${INSTFLAGS[*]}"
fail=0; runs=0
job() {
  local prop="$1" seed="$2"
  INSTFLAGS=($INSTFLAGS_STR)
  a="$(one "$prop" "$seed" 3 1)"; b="$(one "$prop" "$seed" 7 4)"; c="$(one "$prop" "$seed" 16 16)"
  if [ -z "$a" ] || [ -z "$b" ] || [ -z "$c" ]; then
    # a run that produced no summary line (killed, out of memory, exit 2) is machinery trouble, not a divergence: once more
    [ -z "$a" ] && a="$(one "$prop" "$seed" 3 1)"; [ -z "$b" ] && b="$(one "$prop" "$seed" 7 4)"; [ -z "$c" ] && c="$(one "$prop" "$seed" 16 16)"
    if [ -z "$a" ] || [ -z "$b" ] || [ -z "$c" ]; then
      echo "RUNFAIL prop=$prop seed=$seed"; echo "  w=3  g=1 : $a"; echo "  w=7  g=4 : $b"; echo "  w=16 g=16: $c"; return 1
    fi
  fi
  if [ "$a" != "$b" ] || [ "$a" != "$c" ]; then
    echo "DIVERGENCE prop=$prop seed=$seed"; echo "  w=3  g=1 : $a"; echo "  w=7  g=4 : $b"; echo "  w=16 g=16: $c"; return 1
  fi
  echo "same prop=$prop seed=$seed $a"
}
export -f job
: > "$S/selftest.out"
for seed in $(seq 1 "$N"); do for prop in C17 C18 C19 C20; do echo "$prop $seed"; done; done \
  | xargs -P 6 -L 1 bash -c 'job $0 $1' >> "$S/selftest.out" 2>&1
same=$(grep -c '^same' "$S/selftest.out"); div=$(grep -c '^DIVERGENCE' "$S/selftest.out"); rf=$(grep -c '^RUNFAIL' "$S/selftest.out")
grep -A3 -E '^DIVERGENCE|^RUNFAIL' "$S/selftest.out" | head -40
echo "selftest: $same (property, seed) pairs identical across 3 process trees (workers 3/7/16, GOMAXPROCS 1/4/16); $div divergent; $rf without a result (machinery trouble)"
[ "$div" = 0 ] || exit 3
[ "$rf" = 0 ] && [ "$same" -gt 0 ] || exit 2
exit 0
