#!/usr/bin/env bash
# False-alarm regression: applies every property-preserving change under /verif/benign/<id>/ to a scratch
# copy of /repo, expects the pinned suite to pass and every quick check to exit 0 (no VIOLATION line).
#   bin/benign.sh [id-glob ...]
set -u
VERIF="$(cd "$(dirname "${BASH_SOURCE[0]}")/.." && pwd)"
. "$VERIF/env.sh"
W="$(mktemp -d "${VERIF_SCRATCH:-/var/tmp}/verif-benign.XXXXXX")"; trap 'rm -rf "$W"' EXIT
pats=("$@"); [ ${#pats[@]} -eq 0 ] && pats=("*")
bad=0; good=0
printf "%-40s %-6s %s\n" id suite "C17 C18 C19 C20 (exit codes)"
for dir in "$VERIF"/benign/*/; do
  [ -f "$dir/patch.diff" ] || continue
  id="$(basename "$dir")"
  match=0; for p in "${pats[@]}"; do case "$id" in $p) match=1;; esac; done; [ $match = 1 ] || continue
  [ "$(jq -r '.retired // ""' "$dir/meta.json" 2>/dev/null)" = "" ] || { printf "%-40s %s\n" "$id" "retired"; continue; }
  base="$(jq -r '.base_commit // "HEAD"' "$dir/meta.json" 2>/dev/null)"; [ -n "$base" ] || base=HEAD
  rm -rf "$W/repo"; mkdir -p "$W/repo"; (cd /repo && git archive "$base") | tar -x -C "$W/repo"
  (cd "$W/repo" && patch -p1 -s < "$dir/patch.diff") || { echo "$id PATCH-DOES-NOT-APPLY"; bad=$((bad+1)); continue; }
  if (cd "$W/repo" && go test -vet=off -count=1 ./... >"$W/suite.log" 2>&1); then suite=pass; else suite=FAIL; fi
  codes=""; ok=1
  for pr in C17 C18 C19 C20; do
    out="$(VERIF_REPO="$W/repo" "$VERIF/bin/check" run "$pr" quick 2>"$W/err.log")"; rc=$?
    codes="$codes $rc"
    if [ $rc != 0 ]; then ok=0; echo "$out" | grep -E "^violation|^  |^VIOLATION" | head -6 | cut -c1-300; tail -3 "$W/err.log" | cut -c1-300; fi
  done
  [ "$suite" = pass ] || ok=0
  [ $ok = 1 ] && good=$((good+1)) || bad=$((bad+1))
  printf "%-40s %-6s %s\n" "$id" "$suite" "$codes"
  R="$VERIF/benign_results.tsv"; touch "$R"
  grep -v "^$id	" "$R" > "$W/results.new" || true
  printf "%s\t%s\t%s\t%s\n" "$id" "$suite" "$(echo $codes)" "$(git -C "$VERIF" rev-parse --short HEAD 2>/dev/null)" >> "$W/results.new"
  sort "$W/results.new" > "$R"
done
echo "benign: clean=$good alarms_or_broken=$bad"
[ $bad = 0 ]
