#!/usr/bin/env bash
# Intake of one sub-agent change: verifies it independently in a scratch copy of
# /repo (suite passes with the change; the demonstration fails with it and
# passes without it) and, only then, keeps it as /verif/seeded/<id>/.
#   bin/seed-intake.sh <agent seed dir> <id> <property> [-race] [extra go test args...]
set -u
VERIF="$(cd "$(dirname "${BASH_SOURCE[0]}")/.." && pwd)"
. "$VERIF/env.sh"
SRC="$1"; ID="$2"; PROP="$3"; shift 3
EXTRA=("$@")
W="$(mktemp -d /var/tmp/verif-intake.XXXXXX)"; trap 'rm -rf "$W"' EXIT
mkdir -p "$W/clean" "$W/mut"
BASE="${BASE:-HEAD}"   # the commit the agent's worktree was created from
(cd /repo && git archive "$BASE") | tar -x -C "$W/clean"
(cd /repo && git archive "$BASE") | tar -x -C "$W/mut"
[ -f "$SRC/patch.diff" ] || { echo "no patch.diff in $SRC"; exit 2; }
(cd "$W/mut" && patch -p1 -s < "$SRC/patch.diff") || { echo "INTAKE $ID: patch does not apply"; exit 1; }
(cd "$W/mut" && go build ./... ) || { echo "INTAKE $ID: does not compile"; exit 1; }
if (cd "$W/mut" && go test -vet=off -count=1 ./... >"$W/suite.log" 2>&1); then suite=pass; else suite=FAIL; fi
demos=("$SRC"/*_test.go)
[ -e "${demos[0]}" ] || { echo "INTAKE $ID: no demo test file"; exit 1; }
cp "${demos[@]}" "$W/mut/"; cp "${demos[@]}" "$W/clean/"
names="$(grep -ho '^func Test[A-Za-z0-9_]*' "${demos[@]}" | sed 's/func //' | paste -sd'|')"
(cd "$W/mut" && go test -vet=off -count=1 "${EXTRA[@]}" -run "^($names)\$" . >"$W/demo-mut.log" 2>&1); dm=$?
(cd "$W/clean" && go test -vet=off -count=1 "${EXTRA[@]}" -run "^($names)\$" . >"$W/demo-clean.log" 2>&1); dc=$?
echo "INTAKE $ID: suite_with_change=$suite demo_with_change_exit=$dm demo_without_change_exit=$dc"
if [ "$suite" = pass ] && [ $dm -ne 0 ] && [ $dc -eq 0 ]; then
  mkdir -p "$VERIF/seeded/$ID"
  cp "$SRC/patch.diff" "$VERIF/seeded/$ID/patch.diff"
  cp "${demos[@]}" "$VERIF/seeded/$ID/"
  [ -f "$SRC/README.md" ] && cp "$SRC/README.md" "$VERIF/seeded/$ID/AGENT_README.md"
  needs="$(grep -i -m1 -A2 'manifest' "$SRC/README.md" 2>/dev/null | tr '\n' ' ' | cut -c1-400)"
  jq -n --arg id "$ID" --arg p "$PROP" --arg needs "$needs" --arg demo "go test -vet=off -count=1 ${EXTRA[*]} -run '^($names)\$' ." \
     --arg base "$(git -C /repo rev-parse --short "$BASE")" \
     '{id:$id, property:$p, base_commit:$base, origin:"sub-agent (given only the property text and a scratch worktree)", needs:$needs,
       verified:{suite_with_change:"pass", demo_with_change:"fails", demo_without_change:"passes", demo_cmd:$demo}}' > "$VERIF/seeded/$ID/meta.json"
  echo "INTAKE $ID: kept in $VERIF/seeded/$ID"
else
  echo "INTAKE $ID: NOT kept"; tail -5 "$W/suite.log" "$W/demo-mut.log" "$W/demo-clean.log" 2>/dev/null | cut -c1-300
  exit 1
fi
