package main

import (
	"fmt"
	"os"
	"runtime"
	"sync"
)

var shared int
var sharedMap = map[string]int{}

type task struct {
	resume chan struct{}
	yield  chan struct{}
	done   bool
}

func handoffSend(c chan struct{}, hide bool) {
	if hide {
		runtime.RaceDisable()
	}
	c <- struct{}{}
	if hide {
		runtime.RaceEnable()
	}
}
func handoffRecv(c chan struct{}, hide bool) {
	if hide {
		runtime.RaceDisable()
	}
	<-c
	if hide {
		runtime.RaceEnable()
	}
}

func main() {
	hide := len(os.Args) > 1 && os.Args[1] == "hide"
	useMap := len(os.Args) > 2 && os.Args[2] == "map"
	ts := []*task{{resume: make(chan struct{}), yield: make(chan struct{})}, {resume: make(chan struct{}), yield: make(chan struct{})}}
	var wg sync.WaitGroup
	for i, t := range ts {
		wg.Add(1)
		go func(i int, t *task) {
			defer wg.Done()
			handoffRecv(t.resume, hide)
			for k := 0; k < 3; k++ {
				if useMap {
					sharedMap[fmt.Sprint(i)] = k
				} else {
					shared = i*10 + k
				}
				handoffSend(t.yield, hide)
				handoffRecv(t.resume, hide)
			}
			t.done = true
			handoffSend(t.yield, hide)
		}(i, t)
	}
	// scheduler: strict alternation
	live := 2
	for live > 0 {
		for _, t := range ts {
			if t.done {
				continue
			}
			handoffSend(t.resume, hide)
			handoffRecv(t.yield, hide)
			if t.done {
				live--
			}
		}
	}
	wg.Wait()
	fmt.Println("final", shared, len(sharedMap))
}
