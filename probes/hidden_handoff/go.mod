module probe2

go 1.23
