package main

import (
	"bytes"
	"fmt"
	"io"
	"log"
	"os"
	"runtime"
	"sync"

	astisub "github.com/asticode/go-astisub"
)

type fatal struct{}

func (fatal) Fatal(a ...interface{}) { panic(fmt.Sprint(a...)) }

type task struct {
	id     int
	resume chan struct{}
	yield  chan bool // true = finished
	doc    []byte
	out    string
}

var hide = true

func send(c chan struct{}) {
	if hide {
		runtime.RaceDisable()
	}
	c <- struct{}{}
	if hide {
		runtime.RaceEnable()
	}
}
func recv(c chan struct{}) {
	if hide {
		runtime.RaceDisable()
	}
	<-c
	if hide {
		runtime.RaceEnable()
	}
}
func sendB(c chan bool, v bool) {
	if hide {
		runtime.RaceDisable()
	}
	c <- v
	if hide {
		runtime.RaceEnable()
	}
}
func recvB(c chan bool) bool {
	if hide {
		runtime.RaceDisable()
	}
	v := <-c
	if hide {
		runtime.RaceEnable()
	}
	return v
}

type yreader struct {
	t *task
	r io.Reader
}

func (y *yreader) Read(p []byte) (int, error) {
	if y.t != nil {
		sendB(y.t.yield, false)
		recv(y.t.resume)
	}
	if false {
		p = p[:64]
	}
	return y.r.Read(p)
}

func render(s *astisub.Subtitles, err error) string {
	o := fmt.Sprint("err=", err)
	if s != nil {
		for _, it := range s.Items {
			o += fmt.Sprintf(" [%v-%v %q]", it.StartAt, it.EndAt, it.String())
		}
	}
	return o
}

func main() {
	log.SetOutput(io.Discard)
	if len(os.Args) > 1 && os.Args[1] == "visible" {
		hide = false
	}
	docs := [][]byte{buildTSCharset(fatal{}, 1, "a#b[c]d"), buildTSCharset(fatal{}, 7, "a#b[c]d"), buildTSCharset(fatal{}, 4, "a#b[c]d")}
	solo := make([]string, len(docs))
	for i, d := range docs {
		solo[i] = render(astisub.ReadFromTeletext(&yreader{r: bytes.NewReader(d)}, astisub.TeletextOptions{PID: 0x100, Page: 888}))
	}
	var ts []*task
	var wg sync.WaitGroup
	for i, d := range docs {
		t := &task{id: i, resume: make(chan struct{}), yield: make(chan bool), doc: d}
		ts = append(ts, t)
		wg.Add(1)
		go func() {
			defer wg.Done()
			recv(t.resume)
			t.out = render(astisub.ReadFromTeletext(&yreader{t: t, r: bytes.NewReader(t.doc)}, astisub.TeletextOptions{PID: 0x100, Page: 888}))
			sendB(t.yield, true)
		}()
	}
	live := map[int]bool{0: true, 1: true, 2: true}
	steps := 0
	for len(live) > 0 {
		for _, t := range ts {
			if !live[t.id] {
				continue
			}
			steps++
			send(t.resume)
			if recvB(t.yield) {
				delete(live, t.id)
			}
		}
	}
	wg.Wait()
	solo2 := make([]string, len(docs))
	for i, d := range docs {
		solo2[i] = render(astisub.ReadFromTeletext(&yreader{r: bytes.NewReader(d)}, astisub.TeletextOptions{PID: 0x100, Page: 888}))
	}
	fmt.Println("steps", steps)
	for i := range docs {
		fmt.Printf("task %d solo  : %s\n", i, solo[i])
		if ts[i].out != solo[i] {
			fmt.Printf("task %d CONCUR: %s   <-- DIFFERS\n", i, ts[i].out)
		}
		if solo2[i] != solo[i] {
			fmt.Printf("task %d solo2 : %s   <-- RESIDUE\n", i, solo2[i])
		}
	}
}
