package main

import (
	"go/ast"
	"go/parser"
)

func parseExpr(s string) (ast.Expr, error) { return parser.ParseExpr(s) }
