package probe

import (
	"bytes"
	"errors"
	"fmt"
	"io"
	"os"
	"testing"
	"testing/iotest"

	astisub "github.com/asticode/go-astisub"
)

type failAt struct {
	r   io.Reader
	n   int
	err error
}

func (f *failAt) Read(p []byte) (int, error) {
	if f.n <= 0 {
		return 0, f.err
	}
	if len(p) > f.n {
		p = p[:f.n]
	}
	n, err := f.r.Read(p)
	f.n -= n
	return n, err
}

func TestCRLFSplit(t *testing.T) {
	doc := "1\r\n00:00:01,000 --> 00:00:02,000\r\nhello\r\nworld\r\n\r\n2\r\n00:00:03,000 --> 00:00:04,000\r\nbye\r\n"
	a, err := astisub.ReadFromSRT(bytes.NewReader([]byte(doc)))
	fmt.Println("whole:", len(a.Items), err, a.Items[0].Lines)
	b, err := astisub.ReadFromSRT(iotest.OneByteReader(bytes.NewReader([]byte(doc))))
	fmt.Println("1byte:", len(b.Items), err, b.Items[0].Lines, len(b.Items[0].Lines))
	c, err := astisub.ReadFromSRT(iotest.DataErrReader(bytes.NewReader([]byte(doc))))
	fmt.Println("dataerr:", len(c.Items), err)
}

func TestSwallow(t *testing.T) {
	doc, _ := os.ReadFile("/repo/testdata/example-in.srt")
	s, err := astisub.ReadFromSRT(&failAt{r: bytes.NewReader(doc), n: 100, err: errors.New("boom")})
	fmt.Println("srt fail@100:", len(s.Items), err)
	doc, _ = os.ReadFile("/repo/testdata/example-in.vtt")
	s, err = astisub.ReadFromWebVTT(&failAt{r: bytes.NewReader(doc), n: 100, err: errors.New("boom")})
	fmt.Println("vtt fail@100:", len(s.Items), err)
	doc, _ = os.ReadFile("/repo/testdata/example-in.ssa")
	s, err = astisub.ReadFromSSA(&failAt{r: bytes.NewReader(doc), n: 900, err: errors.New("boom")})
	fmt.Println("ssa fail@900:", len(s.Items), err)
	doc, _ = os.ReadFile("/repo/testdata/example-in.ttml")
	s, err = astisub.ReadFromTTML(&failAt{r: bytes.NewReader(doc), n: 900, err: errors.New("boom")})
	fmt.Println("ttml fail@900:", err)
	doc, _ = os.ReadFile("/repo/testdata/example-in.stl")
	s, err = astisub.ReadFromSTL(&failAt{r: bytes.NewReader(doc), n: 1024+128+5, err: errors.New("boom")}, astisub.STLOptions{})
	fmt.Println("stl fail@1157:", err)
	s, err = astisub.ReadFromSTL(iotest.HalfReader(bytes.NewReader(doc)), astisub.STLOptions{})
	fmt.Println("stl half:", err)
	s, err = astisub.ReadFromSTL(iotest.DataErrReader(bytes.NewReader(doc)), astisub.STLOptions{})
	fmt.Println("stl dataerr:", err, s != nil && len(s.Items) > 0)
	s, err = astisub.ReadFromSTL(bytes.NewReader(doc), astisub.STLOptions{})
	fmt.Println("stl whole:", err, len(s.Items))
}
