package probe

import (
	"bytes"
	"fmt"
	"io"
	"os"
	"path/filepath"
	"testing"

	astisub "github.com/asticode/go-astisub"
)

type ueof struct {
	r io.Reader
	n int
}

func (f *ueof) Read(p []byte) (int, error) {
	if f.n <= 0 {
		return 0, io.ErrUnexpectedEOF
	}
	if len(p) > f.n {
		p = p[:f.n]
	}
	n, err := f.r.Read(p)
	f.n -= n
	return n, err
}

func TestMisc(t *testing.T) {
	ts := buildTS(t)
	s, err := astisub.ReadFromTeletext(&ueof{r: bytes.NewReader(ts), n: 188 * 4}, astisub.TeletextOptions{PID: 0x100, Page: 888})
	dump("ts ErrUnexpectedEOF@752", s, err)

	dir := t.TempDir()
	for _, ext := range []string{"srt", "vtt", "ssa", "stl", "ttml", "ts"} {
		p := filepath.Join(dir, "d."+ext)
		os.Mkdir(p, 0o755)
		s, err := astisub.OpenFile(p)
		n := -1
		if s != nil {
			n = len(s.Items)
		}
		fmt.Printf("open dir .%s: items=%d err=%v\n", ext, n, err)
	}
	src, _ := astisub.OpenFile("/repo/testdata/example-in.srt")
	for _, ext := range []string{"srt", "vtt", "ssa", "stl", "ttml"} {
		p := filepath.Join(dir, "full."+ext)
		if err := os.Symlink("/dev/full", p); err != nil {
			t.Fatal(err)
		}
		func() {
			defer func() {
				if r := recover(); r != nil {
					fmt.Printf("write /dev/full .%s: PANIC %v\n", ext, r)
				}
			}()
			fmt.Printf("write /dev/full .%s: err=%v\n", ext, src.Write(p))
		}()
	}
	fmt.Println("missing:", func() error { _, err := astisub.OpenFile(filepath.Join(dir, "nope.srt")); return err }())
	fmt.Println("bad ext:", func() error { _, err := astisub.OpenFile("/repo/go.mod"); return err }())
	fmt.Println("write missing dir:", src.Write(filepath.Join(dir, "no", "x.srt")))
}
