package probe

import (
	"bytes"
	"io"
	"log"
	"os"
	"path/filepath"
	"strings"
	"sync"
	"testing"

	astisub "github.com/asticode/go-astisub"
)

func TestC20(t *testing.T) {
	log.SetOutput(io.Discard)
	files, _ := filepath.Glob("/repo/testdata/*-in*")
	ts := buildTS(t)
	var wg sync.WaitGroup
	for rep := 0; rep < 4; rep++ {
		for _, f := range files {
			wg.Add(1)
			go func(f string) {
				defer wg.Done()
				b, _ := os.ReadFile(f)
				var s *astisub.Subtitles
				var err error
				switch {
				case strings.HasSuffix(f, ".srt"):
					s, err = astisub.ReadFromSRT(bytes.NewReader(b))
				case strings.HasSuffix(f, ".vtt"):
					s, err = astisub.ReadFromWebVTT(bytes.NewReader(b))
				case strings.HasSuffix(f, ".ssa"):
					s, err = astisub.ReadFromSSA(bytes.NewReader(b))
				case strings.HasSuffix(f, ".stl"):
					s, err = astisub.ReadFromSTL(bytes.NewReader(b), astisub.STLOptions{})
				case strings.HasSuffix(f, ".ttml"):
					s, err = astisub.ReadFromTTML(bytes.NewReader(b))
				}
				if err != nil || s == nil || len(s.Items) == 0 {
					return
				}
				s.Fragment(2e9)
				s.Unfragment()
				s.Optimize()
				var o bytes.Buffer
				s.WriteToSRT(&o)
				s.WriteToWebVTT(&o)
				s.WriteToTTML(&o)
				s.WriteToSTL(&o)
				if s.Metadata != nil {
					s.WriteToSSA(&o)
				}
			}(f)
		}
		wg.Add(1)
		go func() {
			defer wg.Done()
			astisub.ReadFromTeletext(bytes.NewReader(ts), astisub.TeletextOptions{})
		}()
	}
	wg.Wait()
}
