package probe

import (
	"bytes"
	"fmt"
	"testing"
	"time"

	astikit "github.com/asticode/go-astikit"
	astisub "github.com/asticode/go-astisub"
)

func TestC19(t *testing.T) {
	s := astisub.NewSubtitles()
	s.Metadata = &astisub.Metadata{}
	s.Styles["a"] = &astisub.Style{ID: "a", InlineStyle: &astisub.StyleAttributes{SSABold: astikit.BoolPtr(true), WebVTTStyles: []string{"::cue(a) { color: red }"}}}
	s.Styles["b"] = &astisub.Style{ID: "b", InlineStyle: &astisub.StyleAttributes{SSAFontName: "Arial", WebVTTStyles: []string{"::cue(b) { color: blue }"}}}
	s.Styles["c"] = &astisub.Style{ID: "c", InlineStyle: &astisub.StyleAttributes{SSAAlignment: astikit.IntPtr(2), WebVTTStyles: []string{"::cue(c) { color: lime }"}}}
	s.Items = append(s.Items, &astisub.Item{StartAt: time.Second, EndAt: 2 * time.Second, Lines: []astisub.Line{{Items: []astisub.LineItem{{Text: "x"}}}}})
	ssa := map[string]int{}
	vtt := map[string]int{}
	for i := 0; i < 50; i++ {
		var b bytes.Buffer
		if err := s.WriteToSSA(&b); err != nil {
			t.Fatal(err)
		}
		ssa[b.String()]++
		b.Reset()
		if err := s.WriteToWebVTT(&b); err != nil {
			t.Fatal(err)
		}
		vtt[b.String()]++
	}
	fmt.Println("distinct ssa outputs:", len(ssa), "distinct vtt outputs:", len(vtt))
}
