package probe

import (
	"bytes"
	"context"
	"fmt"
	"io"
	"math/bits"
	"testing"
	"testing/iotest"

	astikit "github.com/asticode/go-astikit"
	astisub "github.com/asticode/go-astisub"
	astits "github.com/asticode/go-astits"
)

var ham84enc [16]byte

func init() {
	// find byte with zero-error decode: choose canonical codes from spec (in TS bit order = reversed)
	spec := []byte{0x15, 0x02, 0x49, 0x5e, 0x64, 0x73, 0x38, 0x2f, 0xd0, 0xc7, 0x8c, 0x9b, 0xa1, 0xb6, 0xfd, 0xea}
	for v, b := range spec {
		for _, cand := range []byte{b, bits.Reverse8(b)} {
			if o, ok := astikit.ByteHamming84Decode(cand); ok && int(o) == v {
				ham84enc[v] = cand
			}
		}
	}
}

func oddParity(c byte) byte {
	c &= 0x7f
	if bits.OnesCount8(c)%2 == 0 {
		c |= 0x80
	}
	return c
}

func unit(mag, pkt int, payload [40]byte) []byte {
	u := []byte{0x03, 0x2c, 0xe0 | 7, 0xe4}
	h := byte(mag&7) | byte(pkt<<3)
	u = append(u, ham84enc[h&0xf], ham84enc[h>>4])
	u = append(u, payload[:]...)
	return u
}

func header(mag, page int, subtitle bool, serial bool, charset int) []byte {
	var p [40]byte
	p[0] = ham84enc[page%10]
	p[1] = ham84enc[page/10]
	p[2] = ham84enc[0]
	p[3] = ham84enc[0]
	p[4] = ham84enc[0]
	c := 0
	if subtitle {
		c |= 8
	}
	p[5] = ham84enc[c]
	p[6] = ham84enc[0]
	c = charset << 1
	if serial {
		c |= 1
	}
	p[7] = ham84enc[c]
	for i := 8; i < 40; i++ {
		p[i] = bits.Reverse8(oddParity(' '))
	}
	return unit(mag, 0, p)
}

func row(mag, r int, text string) []byte {
	var p [40]byte
	b := []byte{0x0b, 0x0b}
	b = append(b, text...)
	b = append(b, 0x0a)
	for i := range p {
		c := byte(' ')
		if i < len(b) {
			c = b[i]
		}
		p[i] = bits.Reverse8(oddParity(c))
	}
	return unit(mag, r, p)
}

func buildTS(t testing.TB) []byte {
	var buf bytes.Buffer
	m := astits.NewMuxer(context.Background(), &buf)
	pid := uint16(0x100)
	if err := m.AddElementaryStream(astits.PMTElementaryStream{ElementaryPID: pid, StreamType: astits.StreamTypePrivateData,
		ElementaryStreamDescriptors: []*astits.Descriptor{{Tag: astits.DescriptorTagTeletext, Length: 5, Teletext: &astits.DescriptorTeletext{Items: []*astits.DescriptorTeletextItem{{Language: []byte("eng"), Magazine: 8, Page: 0x88, Type: 2}}}}}}); err != nil {
		t.Fatal(err)
	}
	m.SetPCRPID(pid)
	pts := int64(90000)
	write := func(units ...[]byte) {
		d := []byte{0x10}
		for _, u := range units {
			d = append(d, u...)
		}
		_, err := m.WriteData(&astits.MuxerData{PID: pid, PES: &astits.PESData{Data: d, Header: &astits.PESHeader{StreamID: astits.StreamIDPrivateStream1,
			OptionalHeader: &astits.PESOptionalHeader{MarkerBits: 2, PTSDTSIndicator: astits.PTSDTSIndicatorOnlyPTS, PTS: &astits.ClockReference{Base: pts}, DataAlignmentIndicator: true}}}})
		if err != nil {
			t.Fatal(err)
		}
		pts += 90000
	}
	write(header(8, 88, true, true, 0), row(8, 20, "Hello"), row(8, 22, "World"))
	write(header(8, 88, true, true, 0))
	write(header(8, 88, true, true, 0), row(8, 21, "Second"))
	write(header(8, 88, true, true, 0))
	return buf.Bytes()
}

type noSeek struct{ r io.Reader }

func (n noSeek) Read(p []byte) (int, error) { return n.r.Read(p) }

func dump(tag string, s *astisub.Subtitles, err error) {
	fmt.Printf("%s: err=%v", tag, err)
	if s != nil {
		for _, it := range s.Items {
			fmt.Printf(" [%v-%v %q]", it.StartAt, it.EndAt, it.String())
		}
	}
	fmt.Println()
}

func TestTS(t *testing.T) {
	ts := buildTS(t)
	fmt.Println("ts len", len(ts))
	s, err := astisub.ReadFromTeletext(bytes.NewReader(ts), astisub.TeletextOptions{})
	dump("seek whole", s, err)
	s, err = astisub.ReadFromTeletext(noSeek{bytes.NewReader(ts)}, astisub.TeletextOptions{})
	dump("noseek whole", s, err)
	s, err = astisub.ReadFromTeletext(noSeek{bytes.NewReader(ts)}, astisub.TeletextOptions{PID: 0x100, Page: 888})
	dump("noseek whole pid", s, err)
	s, err = astisub.ReadFromTeletext(iotest.OneByteReader(bytes.NewReader(ts)), astisub.TeletextOptions{PID: 0x100, Page: 888})
	dump("1byte pid", s, err)
	s, err = astisub.ReadFromTeletext(iotest.HalfReader(bytes.NewReader(ts)), astisub.TeletextOptions{PID: 0x100, Page: 888})
	dump("half pid", s, err)
	s, err = astisub.ReadFromTeletext(iotest.DataErrReader(bytes.NewReader(ts)), astisub.TeletextOptions{PID: 0x100, Page: 888})
	dump("dataerr pid", s, err)
}
